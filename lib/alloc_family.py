"""C18: the specification decides the state-dependent allocation budget of every call (Signal.tla / Pool.tla worlds),
the Go runtime's malloc counter supplies the observation."""
import json, os
from core import *
import signal_family as sf
import pool_family as pf


def one_pass(ctx, n):
    st1 = ctx.record("allocs", outdir=os.path.join(ctx.work, "alloc-%d" % n))
    mm1, tot1 = validate_files(ctx, "SignalTrace", sf.TRACE_CFG, st1["files"])
    st2 = ctx.record("poolcycle", outdir=os.path.join(ctx.work, "poolcycle-%d" % n))
    mm2, tot2 = pf.pool_mismatches(ctx, [st2])
    return st1, mm1, tot1, st2, mm2, tot2


def key(m):
    return (os.path.basename(m["file"]), m["line"], m["op"], m["cls"])


def run(ctx):
    st1, mm1, tot1, st2, mm2, tot2 = one_pass(ctx, 1)
    ctx.note("recorded allocs: %d traces, %d events measured; pool cycles: %d events" % (st1["traces"], st1["events"], st2["events"]))
    over = [m for m in mm1 + mm2 if m["cls"] == "alloc"]
    foreign = [m for m in mm1 + mm2 if m["cls"] != "alloc"]
    if over:
        # the drivers are deterministic for a seed: a second, independent run must show the same over-budget call,
        # otherwise it was runtime background noise and is not reported
        ctx.note("%d over-budget measurements; re-running to exclude runtime noise" % len(over))
        _, m1b, _, _, m2b, _ = one_pass(ctx, 2)
        again = {key(m) for m in m1b + m2b if m["cls"] == "alloc"}
        over = [m for m in over if key(m) in again]
    viol = 0
    for n, m in enumerate(over[:20]):
        pre = trace_prefix(m["file"], m["line"]) if "poolcycle" not in m["file"] else pf.trace_prefix_pool(m["file"], m["line"])
        path = save_replay(ctx, n, pre)
        print("VIOLATION property=C18 replay=%s" % path)
        print("  %s allocated %s object(s), budget %s (line %d of %s)" % (m["op"], m["got"], m["exp"], m["line"], os.path.basename(m["file"])))
        viol += 1
    for m in foreign[:5]:
        print("NOTE: non-allocation mismatch op=%s class=%s belongs to another property's check" % (m["op"], m["cls"]))
    samples = []
    with open(st1["files"][0]) as fh:
        for i, line in enumerate(fh):
            e = json.loads(line)
            if e.get("allocs", -1) >= 0:
                samples.append({k: e[k] for k in ("op", "args", "ty", "fn", "res", "allocs")})
            if len(samples) >= 8:
                break
    measured = 0
    for f in st1["files"] + st2["files"]:
        with open(f) as fh:
            for line in fh:
                if '"allocs":-1' not in line:
                    measured += 1
    cov = dict(explanation="Every public call in the recorded traces is bracketed by runtime.ReadMemStats (GOMAXPROCS(1), GC off: the Mallocs delta is exact); the trace specifications compute the allocation budget of the call from the PRE-state of their own world (0 for get/set, sample append, reads/writes, conversions, channel views, Append that fits, warmed-up pool get/put with one buffer outstanding; <=1 for Slice; unconstrained for Alloc, a growing Append, a Get that misses) and flag any call over budget. An over-budget call is only reported if an independent second run reproduces it.",
               evaluations=tot1["lines"] + tot2["lines"], measured_calls=measured, distinct_nontrivial=st1["cases"],
               traces_validated_against_impl=st1["traces"] + st2["traces"], samples=samples, ops=st1["ops"], element_types=st1["types"],
               rule="a case is a distinct (operation, element type, shape, arguments) executed with malloc counting",
               pool_cycles=st2["extra"].get("cycles", 0))
    write_evidence(ctx, "other", cov, ["TLA+ does not observe the heap: the spec decides the budget, runtime.MemStats.Mallocs is the observation",
                                       "sync.Pool's own occasional internal allocations are not the library's: pool budgets apply to warmed-up cycles with one buffer outstanding"], viol)
    return 1 if viol else 0
