"""Generates random operands with Python big integers; BigNatTest.tla must agree on every line."""
import json, random


def enc(n):
    s = 1 if n < 0 else 0
    n = abs(n)
    limbs = []
    while n:
        limbs.append(n & 32767)
        n >>= 15
    return [s] + limbs


def gen(path, n=400, seed=1):
    rnd = random.Random(seed)
    with open(path, "w") as f:
        for i in range(n):
            bits = rnd.choice([0, 1, 7, 15, 16, 30, 31, 32, 53, 63, 64, 65, 127, 200])
            def r():
                v = rnd.getrandbits(bits) if bits else 0
                if rnd.random() < .2: v = (1 << bits) - 1 if bits else 0
                if rnd.random() < .1: v = 1 << max(bits - 1, 0)
                return -v if rnd.random() < .5 else v
            a, b = r(), r()
            k = rnd.choice([0, 1, 14, 15, 16, 29, 30, 31, 45, 64, 100])
            ea, eb = rnd.randint(-80, 80), rnd.randint(-80, 80)
            e = min(ea, eb)
            dadd = a * (1 << (ea - e)) + b * (1 << (eb - e))
            va, vb = a * 2.0 ** 0, b
            from fractions import Fraction
            fa, fb = Fraction(a) * Fraction(2) ** ea, Fraction(b) * Fraction(2) ** eb
            f.write(json.dumps(dict(a=enc(a), b=enc(b), add=enc(a + b), sub=enc(a - b), mul=enc(a * b), cmp=(a > b) - (a < b), k=k,
                                    shl=enc(a * (1 << k)), shr=enc(abs(a) >> k), bits=abs(a).bit_length(), ea=ea, eb=eb,
                                    dcmp=(fa > fb) - (fa < fb), dadd=enc(dadd), edadd=e)) + "\n")


if __name__ == "__main__":
    import sys
    gen(sys.argv[1])
