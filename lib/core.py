"""Infrastructure shared by all checks: scratch dir, harness build, TLC runs, evidence, verdicts."""
import atexit, concurrent.futures, json, os, re, shutil, subprocess, sys, tempfile, time

VERIF = os.path.dirname(os.path.dirname(os.path.abspath(__file__)))
REPO = os.environ.get("VERIF_REPO", "/repo")
GOENV = dict(GOFLAGS="-mod=mod", GOPROXY="off", GOSUMDB="off", GOTOOLCHAIN="local")
NCPU = os.cpu_count() or 4


class LibraryPanic(Exception):
    """The recorder died of a Go panic raised inside pipelined/signal, in a call the driver makes because the
    specification allows it (drivers wrap every call that may legitimately panic): real-code behaviour, a verdict."""
    def __init__(self, profile, where, text):
        Exception.__init__(self, "recorder %s: the library panicked in %s" % (profile, where))
        self.profile, self.where, self.text = profile, where, text


# library functions each property speaks about: a panic escaping from one of them in a call the driver makes
# because the specification allows it is a violation of that property; a panic elsewhere in the library stops the
# run as an infrastructure error of THIS check (the check of the property that owns the function reports it)
PANIC_SCOPE = {
    "C01": r"\.(Read|Write|ReadStriped|WriteStriped|ChannelLength|BufferIndex|Sample|SetSample)\b",
    "C02": r"\.(Slice|Capacity|Length|Len|Cap)\b",
    "C03": r"\.(Append|alignCapacity)\b",
    "C04": r"\.AppendSample\b",
    "C05": r"\.(Float|Signed|Unsigned)As(Float|Signed|Unsigned)\b|\.min\b",
    "C06": r"\.(Signed|Unsigned)As(Signed|Unsigned)\b|\.Scale\b|BitDepth\.",
    "C07": r"\.(Signed|Unsigned)As(Signed|Unsigned)\b|\.Scale\b|BitDepth\.",
    "C08": r"\.FloatAs(Signed|Unsigned)\b|BitDepth\.",
    "C09": r"\.(Signed|Unsigned)AsFloat\b|BitDepth\.",
    "C10": r"PoolAlloc|\.clear\b|\.Alloc\b",
    "C11": r"PoolAlloc|\.clear\b|\.Alloc\b",
    "C12": r"Buffer\[|\.(Read|Write|ReadStriped|WriteStriped|ChannelLength|BufferIndex|alignCapacity)\b|\.C\[",
    "C13": r"\.(Alloc|getBitDepth|alignCapacity)\b",
    "C14": r"\.C\[|\.Channel\b|BufferIndex",
    "C15": r"\.mustSame\b|PoolAlloc",
    "C16": r"BitDepth\.|\.Scale\b",
    "C17": r"Frequency\.",
    "C19": r".",
    "C20": r".",
    "replay": r".",
}


def library_panic_site(stderr):
    """If stderr is the traceback of a Go panic whose innermost non-runtime frame is library code: the library
    frames of the panicking goroutine, innermost first; otherwise None."""
    lines = stderr.splitlines()
    starts = [i for i, l in enumerate(lines) if l.startswith("panic: ") or l.startswith("fatal error: ")]
    if not starts or "harness bug" in lines[starts[0]]:
        return None
    for i in range(starts[0], len(lines)):
        if lines[i].startswith("goroutine ") and lines[i].rstrip().endswith("[running]:"):
            frames = []
            for l in lines[i + 1:]:
                if not l:
                    break
                if l[0] in " \t" or l.startswith("created by"):
                    continue
                if l.startswith(("panic(", "runtime.", "runtime/", "internal/", "sync.", "sync/", "reflect.")):
                    continue
                frames.append(l.strip())
            if frames and frames[0].startswith("pipelined.dev/signal."):
                return [f for f in frames if f.startswith("pipelined.dev/signal.")]
            return None
    return None


class Infra(Exception):
    """Infrastructure problem (exit 2) -- never a verdict about the code."""


class Ctx:
    def __init__(self, prop, tier, seed, keep=False):
        self.prop, self.tier, self.seed = prop, tier, seed
        self.t0 = time.time()
        base = os.environ.get("VERIF_SCRATCH") or tempfile.gettempdir()
        self.work = tempfile.mkdtemp(prefix="verif-%s-" % prop, dir=base)
        if not keep:
            atexit.register(shutil.rmtree, self.work, True)
        self.spec = os.path.join(self.work, "spec")
        shutil.copytree(os.path.join(VERIF, "spec"), self.spec)
        self.bins = {}
        self.log = []
        self.tlc_runs = 0

    def note(self, *a):
        msg = " ".join(str(x) for x in a)
        self.log.append(msg)
        print("[%s %5.1fs] %s" % (self.prop, time.time() - self.t0, msg), flush=True)

    # ---- Go harness --------------------------------------------------------------------------
    def harness_dir(self):
        d = os.path.join(self.work, "harness")
        if not os.path.isdir(d):
            shutil.copytree(os.path.join(VERIF, "harness"), d)
            gomod = open(os.path.join(d, "go.mod")).read().replace("=> /repo", "=> " + REPO)
            open(os.path.join(d, "go.mod"), "w").write(gomod)
            shutil.copy(os.path.join(REPO, "go.sum"), os.path.join(d, "go.sum"))
        return d

    def build(self, cmd, race=False, tags="verif"):
        key = (cmd, race)
        if key in self.bins:
            return self.bins[key]
        out = os.path.join(self.work, cmd + ("-race" if race else ""))
        args = ["go", "build", "-trimpath", "-tags", tags, "-o", out]   # -trimpath: identical sources in another directory hit the build cache
        if race:
            args.append("-race")
        args.append("./cmd/" + cmd)
        env = dict(os.environ, **GOENV)
        if race:
            env["CGO_ENABLED"] = "1"
        p = subprocess.run(args, cwd=self.harness_dir(), env=env, capture_output=True, text=True)
        if p.returncode != 0:
            raise Infra("go build of the harness against %s failed:\n%s" % (REPO, p.stderr[-3000:]))
        self.bins[key] = out
        return out

    def record(self, profile, outdir=None, shards=None, extra=(), race=False, env=None, timeout=1800, cmd="record"):
        """Run a recorder profile on the real library; returns its stats dict."""
        if shards is None:      # TLC's JSON reader holds a whole file in memory: keep thorough-tier files small
            shards = 24 if self.tier == "thorough" else 8
        binp = self.build(cmd, race=race)
        outdir = outdir or os.path.join(self.work, "tr-" + profile)
        os.makedirs(outdir, exist_ok=True)
        args = [binp, "--profile", profile, "--tier", self.tier, "--seed", str(self.seed), "--out", outdir,
                "--shards", str(shards)] + list(extra)
        e = dict(os.environ)
        e.update(env or {})
        try:
            p = subprocess.run(args, capture_output=True, text=True, timeout=timeout, env=e)
        except subprocess.TimeoutExpired:
            raise Infra("recorder %s timed out" % profile)
        if p.returncode != 0:
            site = library_panic_site(p.stderr or "")
            if site and any(re.search(PANIC_SCOPE.get(self.prop, r"$^"), f) for f in site):
                raise LibraryPanic(profile, site[0], "command: %s\n%s" % (" ".join(args[1:]), (p.stderr or "")[-6000:]))
            if site:
                raise Infra("recorder %s: the library panicked in %s, a function property %s does not speak about; the run cannot continue:\n%s" % (profile, site[0], self.prop, (p.stderr or "")[-1500:]))
            raise Infra("recorder %s failed (rc=%d): %s" % (profile, p.returncode, (p.stderr or p.stdout)[-3000:]))
        try:
            st = json.loads(p.stdout.strip().splitlines()[-1])
        except Exception:
            raise Infra("recorder %s printed no stats: %s" % (profile, p.stdout[-500:]))
        st["stderr"] = p.stderr
        return st

    # ---- TLC ---------------------------------------------------------------------------------
    def tlc(self, module, cfg_text, env=None, workers=None, timeout=900, extra=(), tag=None):
        """Run TLC on spec/<module>.tla with the given cfg text. Returns (rc, output)."""
        self.tlc_runs += 1
        tag = tag or "%s-%d" % (module, self.tlc_runs)
        cfg = os.path.join(self.spec, tag + ".cfg")
        open(cfg, "w").write(cfg_text)
        meta = os.path.join(self.work, "meta-" + tag)
        args = ["tlc", "-workers", str(workers or NCPU), "-metadir", meta, "-config", cfg, "-noGenerateSpecTE"] + list(extra) + [module + ".tla"]
        e = dict(os.environ)
        e.setdefault("JAVA_TOOL_OPTIONS", "-Xss64m")
        e.update(env or {})
        try:
            p = subprocess.run(args, cwd=self.spec, env=e, capture_output=True, text=True, timeout=timeout)
        except subprocess.TimeoutExpired:
            subprocess.run(["pkill", "-f", meta], capture_output=True)
            raise Infra("TLC timed out after %ds on %s" % (timeout, tag))
        finally:
            shutil.rmtree(meta, ignore_errors=True)
        return p.returncode, p.stdout + p.stderr


RE_STATES = re.compile(r"(\d+) states generated, (\d+) distinct states found, (\d+) states left")
RE_DEPTH = re.compile(r"depth of the complete state graph search is (\d+)")


def mc_stats(out):
    m = None
    for m in RE_STATES.finditer(out):
        pass
    if not m:
        return None
    d = RE_DEPTH.search(out)
    return dict(generated=int(m.group(1)), distinct=int(m.group(2)), left=int(m.group(3)),
                depth=int(d.group(1)) if d else None)


def model_check(ctx, module, cfg_text, timeout=900, tag=None, workers=None):
    """Exhaustive TLC run of a model; any error here is a specification problem => Infra."""
    rc, out = ctx.tlc(module, cfg_text, timeout=timeout, tag=tag, workers=workers)
    st = mc_stats(out)
    if rc != 0 or st is None or "No error has been found" not in out or st["left"] != 0:
        raise Infra("model checking %s did not complete cleanly (rc=%s):\n%s" % (tag or module, rc, tail(out)))
    ctx.note("model %s: %d distinct states, %d transitions, depth %s" % (tag or module, st["distinct"], st["generated"], st["depth"]))
    return st


def tail(s, n=40):
    return "\n".join(s.splitlines()[-n:])


RE_MISMATCH = re.compile(r'^<<"MISMATCH", (\d+), (-?\d+), "(\w+)", "(\w+)", (.+?), (.+?), (TRUE|FALSE)>>\s*$')
RE_SUMMARY = re.compile(r'^<<"SUMMARY", (\d+), (\d+), (\d+), (\d+)>>\s*$')


def validate_file(ctx, module, cfg_text, path, timeout=900, extra_env=None):
    """Validate one ndjson trace file against a trace spec. Returns dict(mismatches, summary)."""
    env = {"TRACE_FILE": path, "JAVA_TOOL_OPTIONS": "-Xss64m -Xmx4g"}
    env.update(extra_env or {})
    rc, out = ctx.tlc(module, cfg_text, env=env, workers=1, timeout=timeout,
                      tag="%s-%s-%08x" % (module, os.path.basename(path).replace(".", "_"), hash(path) & 0xffffffff))
    mm, summ = [], None
    for line in out.splitlines():
        m = RE_MISMATCH.match(line)
        if m:
            mm.append(dict(line=int(m.group(1)), tid=int(m.group(2)), op=m.group(3), cls=m.group(4),
                           exp=m.group(5).strip('"'), got=m.group(6).strip('"'), zero=m.group(7) == "TRUE", file=path))
        s = RE_SUMMARY.match(line)
        if s:
            summ = dict(lines=int(s.group(1)), bad=int(s.group(2)), unspec=int(s.group(3)), judged=int(s.group(4)))
    if summ is None or "No error has been found" not in out:
        raise Infra("trace validation of %s did not complete (rc=%s):\n%s" % (path, rc, tail(out)))
    if summ["bad"] != len(mm) and not (len(mm) == 60 and summ["bad"] > 60):   # NumTrace prints the first 60 only
        raise Infra("trace validation of %s: %d mismatches counted, %d parsed" % (path, summ["bad"], len(mm)))
    return dict(mismatches=mm, summary=summ, out=out)


def validate_files(ctx, module, cfg_text, files, timeout=900, par=None):
    par = par or max(1, min(8, NCPU // 2))
    res = []
    with concurrent.futures.ThreadPoolExecutor(par) as ex:
        futs = [ex.submit(validate_file, ctx, module, cfg_text, f, timeout) for f in files]
        for f in futs:
            res.append(f.result())
    tot = dict(lines=0, bad=0, unspec=0, judged=0)
    mm = []
    for r in res:
        for k in tot:
            tot[k] += r["summary"][k]
        mm += r["mismatches"]
    return mm, tot


def trace_prefix(path, line):
    """Lines of the trace (from its Reset) that ends at 1-based `line` of file `path`."""
    with open(path) as f:
        lines = f.read().splitlines()
    i = line - 1
    s = i
    while s > 0 and json.loads(lines[s]).get("op") not in ("Reset", "Start"):
        s -= 1
    return lines[s:i + 1]


def save_replay(ctx, n, lines):
    d = os.path.join(VERIF, "out", "replay")
    os.makedirs(d, exist_ok=True)
    p = os.path.join(d, "%s-%s-%d-%d.ndjson" % (ctx.prop, ctx.tier, ctx.seed, n))
    open(p, "w").write("\n".join(lines) + "\n")
    return p


# ---- known findings -------------------------------------------------------------------------------
def known_findings(prop):
    p = os.path.join(VERIF, "known_findings.json")
    if not os.path.exists(p):
        return []
    return [f for f in json.load(open(p))["findings"] if f.get("status") == "known" and f.get("property") == prop]


# ---- evidence ---------------------------------------------------------------------------------------
def write_evidence(ctx, level, coverage, assumptions, violations):
    # evidence/ only ever describes runs against /repo itself; runs against a scratch copy (VERIF_REPO, used by
    # bin/refcheck and bin/seedsweep) write theirs under out/
    evdir = os.path.join(VERIF, "evidence") if os.path.realpath(REPO) == "/repo" else os.path.join(VERIF, "out", "evidence-scratch")
    os.makedirs(evdir, exist_ok=True)
    ev = dict(property_id=ctx.prop, tier=ctx.tier, seed=ctx.seed, level=level, coverage=coverage,
              assumptions=assumptions, wall_s=round(time.time() - ctx.t0, 1), violations=violations)
    p = os.path.join(evdir, ctx.prop + ".json")
    tmp = p + ".tmp"
    json.dump(ev, open(tmp, "w"), indent=1)
    os.replace(tmp, p)
    return p
