"""Checks decided with Pool.tla: C10 (sequential histories), C11 (all interleavings / concurrent runs), Put clause of C15."""
import json, os, re
from core import *

POOL_TRACE_CFG = "SPECIFICATION Spec\nINVARIANTS\n  Done\n  Safe\nPOSTCONDITION AllConsumed\nCHECK_DEADLOCK FALSE\n"


def pool_cfg(procs, cycles, outstanding, maxids, ch, l, k, mode="spec"):
    return ("SPECIFICATION Spec\nCONSTANTS\n  Procs = %s\n  Cycles = %d\n  MaxIds = %d\n  Ch = %d\n  L = %d\n  K = %d\n  PutMode = \"%s\"\n  Outstanding = %d\n"
            "INVARIANTS\n  TypeOK\n  FreshOnGet\n  FreeFresh\n  Excl\nCHECK_DEADLOCK FALSE\n") % (procs, cycles, maxids, ch, l, k, mode, outstanding)


MC = {
    ("C10", "quick"): dict(procs="{1}", cycles=3, outstanding=2, maxids=3, ch=2, l=1, k=2),
    ("C10", "thorough"): dict(procs="{1}", cycles=4, outstanding=3, maxids=4, ch=2, l=1, k=2),
    ("C11", "quick"): dict(procs="{1, 2, 3}", cycles=2, outstanding=1, maxids=3, ch=1, l=1, k=2),
    ("C11", "thorough"): dict(procs="{1, 2, 3}", cycles=2, outstanding=1, maxids=3, ch=2, l=1, k=2),
}


def mutant_refuted(ctx, params):
    """Non-vacuity: the pinned (pre-fix) Put must violate the invariants on the same model."""
    rc, out = ctx.tlc("MCPool", pool_cfg(mode="pinned", **params), timeout=600, tag="MCPool-pinned")
    ok = "Invariant FreeFresh is violated" in out or "Invariant FreshOnGet is violated" in out
    if not ok:
        raise Infra("spec mutant PutAsPinned was NOT refuted by TLC: the pool invariants are vacuous\n" + tail(out))
    ctx.note("spec mutant PutAsPinned refuted by TLC (invariants are not vacuous)")
    return True


def apalache_inductive(ctx):
    """Unbounded-history complement (Apalache): the pool invariant is inductive; the pinned Put is refuted.
    A missing tool, a timeout or any other trouble only degrades the evidence; it is never a verdict."""
    import shutil, subprocess
    if not shutil.which("apalache-mc"):
        return dict(ran=False, reason="apalache-mc not on PATH")
    d = os.path.join(ctx.work, "apa")
    os.makedirs(d, exist_ok=True)
    shutil.copy(os.path.join(ctx.spec, "PoolApa.tla"), d)
    res = dict(ran=True)
    for name, mode, init, length, expect_ok in (("base", "spec", "Init", 0, True), ("step", "spec", "IndInit", 1, True), ("pinned_step", "pinned", "IndInit", 1, False)):
        open(os.path.join(d, name + ".cfg"), "w").write('CONSTANTS\n  PutMode = "%s"\nINIT Init\nNEXT Next\n' % mode)
        try:
            r = subprocess.run(["apalache-mc", "check", "--config=%s.cfg" % name, "--init=" + init, "--inv=IndInv", "--length=%d" % length,
                                "--out-dir=" + os.path.join(d, "out-" + name), "PoolApa.tla"], cwd=d, capture_output=True, text=True, timeout=600)
        except subprocess.TimeoutExpired:
            res[name] = "timeout"
            continue
        ok = "EXITCODE: OK" in r.stdout
        err = "EXITCODE: ERROR (12)" in r.stdout
        res[name] = "holds" if ok else "violated" if err else "inconclusive"
        if (expect_ok and not ok) or (not expect_ok and not err):
            res["unexpected"] = name
    shutil.rmtree(d, ignore_errors=True)
    if res.get("unexpected") and res[res["unexpected"]] in ("violated", "holds"):
        raise Infra("Apalache obligation %s came out %s: the pool specification is wrong" % (res["unexpected"], res[res["unexpected"]]))
    ctx.note("Apalache: IndInv holds initially (%s), is inductive (%s), and is refuted for the pinned Put (%s)" % (res.get("base"), res.get("step"), res.get("pinned_step")))
    return res


def generated(ctx):
    """spec -> code: TLC simulates PoolGen.tla; the recorder executes the behaviours on a real PoolAllocator (shape 2/1/3)."""
    num, depth = {"quick": (150, 30), "thorough": (3000, 50)}[ctx.tier]
    cfg = "SPECIFICATION Spec\nCONSTANTS\n  Ch = 2\n  L = 1\n  K = 3\n  Depth = %d\n  Outstanding = 3\nINVARIANT Emit\nCHECK_DEADLOCK FALSE\n" % depth
    rc, out = ctx.tlc("PoolGen", cfg, workers=1, timeout=900, extra=["-simulate", "num=%d" % num, "-depth", str(depth * 3), "-seed", str(ctx.seed)], tag="PoolGen")
    scripts = []
    for line in out.splitlines():
        m = re.match(r'^<<"SCRIPT", "(.*)">>\s*$', line)
        if m:
            scripts.append(m.group(1).replace('\\"', '"'))
    if len(scripts) < num // 2:
        raise Infra("PoolGen produced %d of %d behaviours:\n%s" % (len(scripts), num, tail(out)))
    p = os.path.join(ctx.work, "poolscripts.ndjson")
    open(p, "w").write("\n".join(scripts) + "\n")
    st = ctx.record("poolscript", extra=["--script", p])
    ctx.note("TLC generated %d pool behaviours of depth %d; replayed on the real pool: %d events" % (len(scripts), depth, st["events"]))
    return st


def pool_mismatches(ctx, stats):
    files = [f for st in stats for f in st["files"]]
    mm, tot = validate_files(ctx, "PoolTrace", POOL_TRACE_CFG, files)
    tot["reused"] = tot.pop("unspec")
    return mm, tot


def run(ctx):
    params = MC[(ctx.prop, ctx.tier)]
    mc = model_check(ctx, "MCPool", pool_cfg(**params), timeout=3000, tag="MCPool-" + ctx.prop)
    mutant_refuted(ctx, params)
    apa = apalache_inductive(ctx) if ctx.prop == "C10" else None
    viol = 0
    races = 0
    if ctx.prop == "C10":
        stats = [ctx.record("poolseq"), ctx.record("poolzero"), generated(ctx)]
    else:
        env = {"GORACE": "halt_on_error=0 exitcode=0"}
        st = ctx.record("poolconc", race=True, env=env)
        reports = re.split(r"(?=WARNING: DATA RACE)", st.get("stderr", ""))[1:]
        races = sum(1 for r in reports if "pipelined.dev/signal" in r)
        if len(reports) > races:
            raise Infra("the race detector reported a race that involves no library frame (harness bug):\n" + reports[0][:1500])
        if races:
            d = os.path.join(VERIF, "out", "replay")
            os.makedirs(d, exist_ok=True)
            p = os.path.join(d, "%s-%s-%d-race.txt" % (ctx.prop, ctx.tier, ctx.seed))
            open(p, "w").write(st["stderr"])
            print("VIOLATION property=%s replay=%s" % (ctx.prop, p))
            print("  the Go race detector reported %d data race(s) during the concurrent pool run" % races)
            viol += 1
        stats = [st]
    for st in stats:
        ctx.note("recorded %s: %d traces, %d events, gets=%s reused=%s" % (st["profile"], st["traces"], st["events"], st.get("extra", {}).get("gets"), st.get("extra", {}).get("reused_gets")))
    mm, tot = pool_mismatches(ctx, stats)
    ctx.note("validated %d events (%d judged), %d mismatches" % (tot["lines"], tot["judged"], len(mm)))
    for n, m in enumerate(mm[:20]):
        pre = trace_prefix_pool(m["file"], m["line"])
        path = save_replay(ctx, n, pre)
        viol += 1
        print("VIOLATION property=%s replay=%s" % (ctx.prop, path))
        print("  at line %d: op=%s class=%s expected=%s observed=%s" % (m["line"], m["op"], m["cls"], m["exp"], m["got"]))
    gets = sum(st.get("extra", {}).get("gets", 0) for st in stats)
    reused = sum(st.get("extra", {}).get("reused_gets", 0) for st in stats)
    if reused == 0:
        ctx.note("NOTE: no Get returned a previously pooled buffer in this run (freshness holds trivially; reuse path not exercised)")
    samples = []
    with open(stats[0]["files"][0]) as fh:
        for i, line in enumerate(fh):
            if i >= 6:
                break
            e = json.loads(line)
            samples.append({k: e[k] for k in ("op", "g", "id", "reused", "kind", "a", "res")})
    cov = dict(states=mc["distinct"], transitions=mc["generated"], traces_validated_against_impl=sum(st["traces"] for st in stats),
               samples=samples, evaluations=tot["lines"], events_judged=tot["judged"], gets=gets, reused_gets=reused,
               distinct_nontrivial=distinct_cases(stats),
               rule="distinct_nontrivial counts distinct (operation, use kind, reused flag, buffer length, capacity, channels, goroutine count) tuples among the recorded events; reused_gets counts Gets that returned a previously pooled buffer (the path no repository test executes); every Get/Use/Check event carries the full projection of the buffer and is compared with the Pool.tla state",
               model=dict(module="MCPool", params=params, depth=mc["depth"], exhaustive=True, spec_mutant_PutAsPinned_refuted=True),
               race_detector_reports=races if ctx.prop == "C11" else None, exhaustive=False, apalache_inductive_invariant=apa,
               run_configs={k: v for st in stats for k, v in st.get("extra", {}).items()})
    assumptions = ["TLC/SANY/Json module trusted", "sync.Pool's choice between a pooled and a new buffer is nondeterministic in the model and bound by the logged identity",
                   "the harness keeps every buffer referenced, so pointer identity is storage identity (when it deliberately drops an original after reslicing from frame 0, the identity follows the slice and the forgotten pointer is unregistered)"]
    if ctx.prop == "C11":
        assumptions += ["the clause 'no data race occurs' is decided by the Go race detector monitoring these runs, not by TLC",
                        "tickets: taken after Get returns and before Put is called (one atomic counter), never wall clock"]
    write_evidence(ctx, "model_checking", cov, assumptions, viol)
    return 1 if viol else 0


def distinct_cases(stats):
    seen = set()
    for st in stats:
        for f in st["files"]:
            procs = 0
            with open(f) as fh:
                for line in fh:
                    e = json.loads(line)
                    if e["op"] == "NewPool":
                        procs = e["procs"]
                    v = e["view"]
                    seen.add((e["op"], e["kind"], e["reused"], v["len"], v["cap"], v["ch"], procs, e["res"]))
    return len(seen)


def trace_prefix_pool(path, line):
    with open(path) as f:
        lines = f.read().splitlines()
    i = line - 1
    s = i
    while s > 0 and json.loads(lines[s]).get("op") != "NewPool":
        s -= 1
    return lines[s:i + 1]
