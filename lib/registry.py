import signal_family

CHECKS = {}
for p in signal_family.PROPS:
    CHECKS[p] = signal_family.run

import pool_family
CHECKS["C10"] = pool_family.run
CHECKS["C11"] = pool_family.run

import num_family
for p in num_family.PROPS:
    CHECKS[p] = num_family.run

import shared_family
CHECKS["C19"] = shared_family.run

import alloc_family
CHECKS["C18"] = alloc_family.run
