import signal_family

CHECKS = {}
for p in signal_family.PROPS:
    CHECKS[p] = signal_family.run
