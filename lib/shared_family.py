"""C19: Shared.tla (all interleavings at access granularity) + concurrent runs of the real library under the race detector,
validated against Signal.tla as a sequential history (results per call + final contents)."""
import json, os, re
from core import *
import signal_family as sf

CFG = """SPECIFICATION Spec
CONSTANTS
  Ch = %d
  ROFrames = %d
  WFrames = %d
  Readers = %s
  Writers = %s
  Hazard = %s
INVARIANTS
  RaceFree
%sCHECK_DEADLOCK FALSE
"""
MC = {"quick": (2, 1, 1, "{1, 2}", "{3, 4}"), "thorough": (2, 2, 1, "{1, 2, 3}", "{4, 5, 6}")}


def run(ctx):
    ch, ro, wf, rs, ws = MC[ctx.tier]
    mc = model_check(ctx, "Shared", CFG % (ch, ro, wf, rs, ws, "FALSE", "  SeqEquivalent\n  Confined\n"), timeout=3000, tag="Shared-C19")
    rc, out = ctx.tlc("Shared", CFG % (2, 1, 1, "{1, 2}", "{3, 4}", "TRUE", ""), timeout=600, tag="Shared-hazard")
    if "Invariant RaceFree is violated" not in out:
        raise Infra("spec-level negative test failed: appends through windows did not violate RaceFree\n" + tail(out))
    ctx.note("hazard config (writers may AppendSample through their window) violates RaceFree as it must")
    st = ctx.record("shared", race=True, env={"GORACE": "halt_on_error=0 exitcode=0"})
    reports = re.split(r"(?=WARNING: DATA RACE)", st.get("stderr", ""))[1:]
    races = [r for r in reports if "pipelined.dev/signal" in r]
    if len(reports) > len(races):
        raise Infra("race report without a library frame (harness bug):\n" + reports[0][:1500])
    viol = 0
    if races:
        d = os.path.join(VERIF, "out", "replay")
        os.makedirs(d, exist_ok=True)
        p = os.path.join(d, "C19-%s-%d-race.txt" % (ctx.tier, ctx.seed))
        open(p, "w").write(st["stderr"])
        print("VIOLATION property=C19 replay=%s" % p)
        print("  the Go race detector reported %d data race(s) in library code during shared read-only use / disjoint-window writes" % len(races))
        viol += 1
    ctx.note("recorded shared: %d concurrent phases, %d events, race reports: %d" % (st.get("extra", {}).get("concurrent_phases", 0), st["events"], len(races)))
    mm, tot = validate_files(ctx, "SignalTrace", sf.TRACE_CFG, st["files"])
    ctx.note("validated %d events (%d judged) against the sequential outcome, %d mismatches" % (tot["lines"], tot["judged"], len(mm)))
    for n, m in enumerate(mm[:20]):
        pre = trace_prefix(m["file"], m["line"])
        path = save_replay(ctx, n, pre)
        print("VIOLATION property=C19 replay=%s" % path)
        print("  concurrent result differs from the sequential one: op=%s class=%s expected=%s observed=%s" % (m["op"], m["cls"], m["exp"], m["got"]))
        viol += 1
    samples = []
    with open(st["files"][0]) as fh:
        for i, line in enumerate(fh):
            e = json.loads(line)
            if e.get("noobs") == 1:
                samples.append({k: e[k] for k in ("op", "args", "ty", "res", "cnt", "vals")})
            if len(samples) >= 6:
                break
    cov = dict(states=mc["distinct"], transitions=mc["generated"], traces_validated_against_impl=st["traces"], samples=samples,
               evaluations=tot["lines"], events_judged=tot["judged"], distinct_nontrivial=st["cases"],
               rule="each trace is one concurrent phase (up to 16 goroutines: readers on one shared read-only window through every read-only entry point, writers on disjoint Slice windows) run under the race detector; per-call results and the final contents of every view are compared with the sequential outcome computed by Signal.tla",
               race_detector_reports=len(races), concurrent_phases=st.get("extra", {}).get("concurrent_phases", 0), ops=st["ops"],
               model=dict(module="Shared", params=dict(ch=ch, ro_frames=ro, w_frames=wf, readers=rs, writers=ws), depth=mc["depth"], exhaustive=True, hazard_config_violates_RaceFree=True),
               exhaustive=False)
    write_evidence(ctx, "model_checking", cov,
                   ["the clause 'free of data races' (including accesses with no observable effect) is decided by the Go race detector monitoring these runs; TLC decides race freedom of the declared footprints under all interleavings and the sequential equivalence",
                    "TLC/SANY/Json trusted; recorder goroutines share no harness state (per-goroutine event buffers)"], viol)
    return 1 if viol else 0
