"""Checks decided with Signal.tla: C01-C05, C12-C15, C18 (budget), C20."""
import json, os
from core import *

def consts(views, arrays, cells, ch, bds):
    return "  MaxViews = %d\n  MaxArrays = %d\n  MaxCells = %d\n  MaxCh = %d\n  BDs = %s\n" % (views, arrays, cells, ch, bds)


# exhaustive configurations; sizes measured on this sandbox (16 workers), see DESIGN.md section 10.5
MC_CONFIGS = {
    "quick": [consts(2, 2, 4, 2, "{16}")],                       # 62 456 distinct states, ~10 s
    "thorough": [consts(2, 2, 5, 2, "{8, 16}"),                  # two views, up to 5 cells, two bit depths
                 consts(3, 2, 3, 2, "{16}"),                     # three views (windows of windows with a third observer)
                 consts(2, 1, 6, 3, "{16}")],                    # three channels, one array of up to 6 cells
}
MC_CONSTS = {k: v[0] for k, v in MC_CONFIGS.items()}

# property -> (model invariants, recorder profiles)
PROPS = {
    "C01": dict(inv=["WriteReadSem", "StripedSem", "StripedPanic"], profiles=["io"]),
    "C02": dict(inv=["SliceSem", "SliceCompose", "Aliasing"], profiles=["slice"]),
    "C03": dict(inv=["AppendSem"], profiles=["append"], gen={"quick": (150, 20), "thorough": (2000, 30)}),
    "C04": dict(inv=["AppendSampleSem"], profiles=["appendsample"]),
    "C05": dict(inv=["ConvertSem"], profiles=["convert"]),
    "C12": dict(inv=["Aliasing", "AppendSem", "SliceSem", "AppendSampleSem", "WriteReadSem"], profiles=["exh", "hist"],
                gen={"quick": (300, 25), "thorough": (5000, 40)}),
    "C13": dict(inv=["AllocSem"], profiles=["alloc"]),
    "C14": dict(inv=["ChannelSem"], profiles=["channel"]),
    "C15": dict(inv=["StripedPanic", "ConvertSem", "AppendSem"], profiles=["panics"], gen={"quick": (150, 20), "thorough": (2000, 30)}),
    "C20": dict(inv=["Inert", "ZeroLen"], profiles=["zero"]),
}

TRACE_CFG = "SPECIFICATION Spec\nINVARIANTS\n  Done\n  WorldOK\nPOSTCONDITION AllConsumed\nCHECK_DEADLOCK FALSE\n"

BASE = {"Alloc": {"C13"}, "Slice": {"C02"}, "Append": {"C03"}, "AppendSample": {"C04"}, "SetSample": {"C12"},
        "Sample": {"C12"}, "Write": {"C01"}, "WriteStriped": {"C01"}, "Read": {"C01"}, "ReadStriped": {"C01"},
        "Convert": {"C05"}, "ConvertBig": {"C05"}, "ChanIndex": {"C14"}, "ChanSample": {"C14"}, "ChanSet": {"C14"}, "ChanShape": {"C14"},
        "Drop": {"C12"}}
C12_OPS = {"Alloc", "Slice", "Append", "AppendSample", "SetSample", "Sample", "Write", "Drop"}
GUARDED = {"Append", "Convert", "ReadStriped", "WriteStriped"}


def attribute(m, prefix_ops, blind_ops=()):
    """Properties a mismatch speaks about (see DESIGN.md section 4.2)."""
    op, cls = m["op"], m["cls"]
    if op in ("Observe", "Sample", "Read", "ChanSample") and blind_ops and cls in ("res", "other", "self"):
        # the one observation that ends a blind history (no contents were looked at before): some unobserved call
        # left a state the specification does not allow - it speaks about every operation of that history
        props = {"C12"}
        for o in blind_ops:
            props |= BASE.get(o, set())
        return props
    if cls == "alloc":
        return {"C18"}
    if cls == "proj":          # Slice(0, Capacity()) did not return the capacity window
        return {"C02", "C12"}
    if cls == "args":
        return set()
    if m["exp"] == "panic" and op in GUARDED:
        return {"C15"}
    props = set(BASE.get(op, set()))
    if op in C12_OPS:
        props.add("C12")
    if cls == "other":         # only non-operated views differ: a sharing relation is broken
        props.add("C12")
        if "Slice" in prefix_ops:
            props.add("C02")
        if "Append" in prefix_ops:
            props.add("C03")
    if m["zero"]:
        props.add("C20")
    return props


GEN_CFG = "SPECIFICATION Spec\nCONSTANTS\n  MaxViews = %d\n  MaxCh = %d\n  MaxFrames = %d\n  Depth = %d\nINVARIANT Emit\nCHECK_DEADLOCK FALSE\n"


def generate(ctx, num, depth, maxviews=5, maxch=3, maxframes=3):
    """spec -> code: TLC simulates SignalGen and prints behaviours; returns the script file (one JSON array per line)."""
    import re
    rc, out = ctx.tlc("SignalGen", GEN_CFG % (maxviews, maxch, maxframes, depth), workers=1, timeout=600,
                      extra=["-simulate", "num=%d" % num, "-depth", str(depth * 3), "-seed", str(ctx.seed)], tag="SignalGen")
    scripts = []
    for line in out.splitlines():
        m = re.match(r'^<<"SCRIPT", "(.*)">>\s*$', line)
        if m:
            scripts.append(m.group(1).replace('\\"', '"'))
    if len(scripts) < num // 2:
        raise Infra("behaviour generation produced %d of %d scripts:\n%s" % (len(scripts), num, tail(out)))
    p = os.path.join(ctx.work, "genscripts.ndjson")
    open(p, "w").write("\n".join(scripts) + "\n")
    ctx.note("TLC generated %d behaviours of depth %d from SignalGen" % (len(scripts), depth))
    return p, len(scripts)


def run(ctx, extra_profiles=()):
    spec = PROPS[ctx.prop]
    # 1. the property stated on the model, exhaustively under small bounds
    mc = None
    for n, c in enumerate(MC_CONFIGS[ctx.tier]):
        cfg = "SPECIFICATION Spec\nCONSTANTS\n" + c + "INVARIANTS\n  TypeOK\n" + "".join("  %s\n" % i for i in spec["inv"]) + "CHECK_DEADLOCK FALSE\n"
        r = model_check(ctx, "MCSignal", cfg, timeout=3000, tag="MCSignal-%s-%d" % (ctx.prop, n))
        if mc is None:
            mc = r
        else:
            mc = dict(distinct=mc["distinct"] + r["distinct"], generated=mc["generated"] + r["generated"], left=0, depth=max(mc["depth"], r["depth"]))
    # 2. record from the real library, 3. validate against the specification
    stats, files = [], []
    for prof in list(spec["profiles"]) + list(extra_profiles):
        st = ctx.record(prof)
        ctx.note("recorded %s: %d traces, %d events, %d distinct cases" % (prof, st["traces"], st["events"], st["cases"]))
        stats.append(st)
        files += st["files"]
    ngen = 0
    if spec.get("gen"):
        num, depth = spec["gen"][ctx.tier]
        path, ngen = generate(ctx, num, depth)
        st = ctx.record("genscript", extra=["--script", path])
        ctx.note("replayed %d generated behaviours on the real library: %d events" % (ngen, st["events"]))
        stats.append(st)
        files += st["files"]
    mm, tot = validate_files(ctx, "SignalTrace", TRACE_CFG, files)
    ctx.note("validated %d events (%d judged, %d traces cut at an unspecified step), %d mismatches" % (tot["lines"], tot["judged"], tot["unspec"], len(mm)))
    extra_viol, extra_cov = 0, {}
    if ngen:
        extra_cov["spec_behaviours_replayed_on_impl"] = ngen
    if ctx.prop == "C15":      # Put of a buffer with a different total capacity: decided with Pool.tla
        import pool_family
        st = ctx.record("poolforeign")
        pm, ptot = pool_family.pool_mismatches(ctx, [st])
        ctx.note("pool: %d foreign Puts recorded, %d events validated, %d mismatches" % (st.get("extra", {}).get("foreign_puts", 0), ptot["lines"], len(pm)))
        for n, m in enumerate(pm[:20]):
            path = save_replay(ctx, 1000 + n, pool_family.trace_prefix_pool(m["file"], m["line"]))
            print("VIOLATION property=C15 replay=%s" % path)
            print("  pool: at line %d: op=%s class=%s expected=%s observed=%s" % (m["line"], m["op"], m["cls"], m["exp"], m["got"]))
            extra_viol += 1
        extra_cov = dict(pool_foreign_puts=st.get("extra", {}).get("foreign_puts", 0), pool_events_validated=ptot["lines"])
        tot["lines"] += ptot["lines"]
        tot["judged"] += ptot["judged"]
    if ctx.prop == "C20":      # zero-channel / zero-capacity pool allocators: decided with Pool.tla
        import pool_family
        st = ctx.record("poolzero")
        pm, ptot = pool_family.pool_mismatches(ctx, [st])
        ctx.note("pool: %d get/use/put cycles on zero-shaped allocators, %d events validated, %d mismatches" % (st.get("extra", {}).get("zero_pool_cycles", 0), ptot["lines"], len(pm)))
        for n, m in enumerate(pm[:20]):
            path = save_replay(ctx, 1000 + n, pool_family.trace_prefix_pool(m["file"], m["line"]))
            print("VIOLATION property=C20 replay=%s" % path)
            print("  pool: at line %d: op=%s class=%s expected=%s observed=%s" % (m["line"], m["op"], m["cls"], m["exp"], m["got"]))
            extra_viol += 1
        extra_cov = dict(zero_pool_cycles=st.get("extra", {}).get("zero_pool_cycles", 0), pool_events_validated=ptot["lines"])
        tot["lines"] += ptot["lines"]
        tot["judged"] += ptot["judged"]
    if ctx.prop == "C05":      # value clause: FloatAsFloat preserves values (exact / nearest float32), never clips
        import num_family
        st = ctx.record("floatfloat")
        nm, ntot = num_family.validate_num(ctx, [st])
        ctx.note("FloatAsFloat values: %d events validated against Num.tla, %d mismatching" % (ntot["lines"], ntot["bad"]))
        v, kn, other = num_family.judge(ctx, nm, None)
        extra_viol += num_family.report(ctx, v, kn, other, base=2000)
        extra_cov = dict(floatfloat_points_validated=ntot["judged"], floatfloat_instantiations=st["types"])
        tot["lines"] += ntot["lines"]
        tot["judged"] += ntot["judged"]
    rc = finish(ctx, mc, stats, mm, tot, extra_cov=extra_cov, extra_viol=extra_viol)
    return 1 if (rc or extra_viol) else 0


def finish(ctx, mc, stats, mm, tot, level="model_checking", extra_cov=None, extra_viol=0):
    own, foreign = [], []
    for m in mm:
        pre = trace_prefix(m["file"], m["line"])
        evs = [json.loads(x) for x in pre[:-1]]
        ops = {e["op"] for e in evs}
        m["props"] = sorted(attribute(m, ops, {e["op"] for e in evs if e.get("noobs") == 1 and e["op"] != "Reset"}))
        m["event"] = json.loads(pre[-1])
        (own if ctx.prop in m["props"] else foreign).append((m, pre))
    viol = 0
    for n, (m, pre) in enumerate(own):
        path = save_replay(ctx, n, pre)
        viol += 1
        print("VIOLATION property=%s replay=%s" % (ctx.prop, path))
        print("  at %s line %d: op=%s class=%s expected=%s observed=%s args=%s" % (os.path.basename(m["file"]), m["line"], m["op"], m["cls"], m["exp"], m["got"], m["event"].get("args")))
        if n >= 20:
            print("  ... %d more" % (len(own) - n - 1))
            viol = len(own)
            break
    for m, pre in foreign[:10]:
        print("NOTE: mismatch attributed to other properties %s (not %s): op=%s class=%s; the rest of that trace is unjudged" % (m["props"], ctx.prop, m["op"], m["cls"]))
    samples = []
    for st in stats:
        for f in st["files"][:1]:
            with open(f) as fh:
                for i, line in enumerate(fh):
                    if i >= 4:
                        break
                    e = json.loads(line)
                    samples.append({k: e[k] for k in ("op", "args", "ty", "fn", "res", "cnt") if k in e})
    ops = {}
    for st in stats:
        for k, v in st["ops"].items():
            ops[k] = ops.get(k, 0) + v
    cov = dict(states=mc["distinct"], transitions=mc["generated"],
               traces_validated_against_impl=sum(st["traces"] for st in stats),
               samples=samples[:12],
               evaluations=tot["lines"], events_judged=tot["judged"], traces_cut_unspecified=tot["unspec"],
               distinct_nontrivial=sum(st["cases"] for st in stats),
               rule="recorder profiles %s; a case is a distinct (operation, element type, view shape, argument tuple) actually executed on the real library; every event carries the full API projection of all live views and is compared with the state Signal.tla computes" % [st["profile"] for st in stats],
               ops=ops, element_types=sorted({t for st in stats for t in st["types"]}),
               model=dict(module="MCSignal", invariants=PROPS.get(ctx.prop, {}).get("inv"), depth=mc["depth"], exhaustive=True),
               mismatches_other_properties=len(foreign), exhaustive=False)
    cov.update(extra_cov or {})
    write_evidence(ctx, level, cov,
                   ["TLC/SANY and the CommunityModules Json reader are trusted", "the recorder (harness/*.go) executes and projects only; it contains no expectation",
                    "model bounds: " + " | ".join(c.replace("\n", ";") for c in MC_CONFIGS[ctx.tier]),
                    "amd64, the Go toolchain on PATH"], viol + extra_viol)
    return 1 if viol else 0
