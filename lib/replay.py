"""check replay <file>: re-execute a reported storage/view trace on the real library and re-validate it;
numeric replay files are re-executed on their recorded inputs; pool replay files (sync.Pool is not deterministic) are re-judged against PoolTrace."""
import json, os, shutil, sys
from core import *
import signal_family as sf


def main(rest, a):
    if not rest:
        print("usage: check replay <file>")
        return 2
    path = os.path.abspath(rest[0])
    if path.endswith(".txt"):
        print(open(path).read()[:4000])
        print("race-detector report: re-run the property's check to reproduce")
        return 1
    head = open(path).readline()
    if head.startswith("command: "):        # a library panic that ended a recorder run: re-run that recorder command
        ctx = Ctx("replay", a.tier, a.seed)
        args = head[len("command: "):].split()
        prof = args[args.index("--profile") + 1]
        seed = int(args[args.index("--seed") + 1])
        ctx.tier, ctx.seed = args[args.index("--tier") + 1], seed
        try:
            ctx.record(prof)
        except LibraryPanic as e:
            print("PANIC reproduced:", e)
            print(e.text[-1500:])
            return 1
        print("no panic: recorder profile %s (seed %d) runs to completion on the current tree" % (prof, seed))
        return 0
    first = json.loads(head)
    ctx = Ctx("replay", a.tier, a.seed)
    if first.get("op") == "NewPool":
        import pool_family
        mm, tot = validate_files(ctx, "PoolTrace", pool_family.POOL_TRACE_CFG, [path])
    elif first.get("op") == "Start":
        import num_family
        st = ctx.record("numreplay", extra=["--script", path], shards=1)
        print("re-executed the recorded inputs on the real library (built from %s): %d events" % (REPO, st["events"]))
        mm, tot = validate_files(ctx, "NumTrace", num_family.NUM_TRACE_CFG, st["files"])
    else:
        st = ctx.record("replay", extra=["--script", path], shards=1)
        print("re-executed %d events on the real library (built from %s)" % (st["events"], REPO))
        mm, tot = validate_files(ctx, "SignalTrace", sf.TRACE_CFG, st["files"])
    for m in mm:
        print("MISMATCH reproduced: line %d op=%s class=%s expected=%s observed=%s" % (m["line"], m["op"], m["cls"], m["exp"], m["got"]))
    if not mm:
        print("no mismatch: the behaviour in %s conforms to the specification on the current tree" % path)
    return 1 if mm else 0
