"""Numeric checks decided with Num.tla / NumTrace.tla on BigNat: C06, C07, C08, C09, C16, C17 and the value clause of C05."""
import json, os
from core import *

NUM_TRACE_CFG = "SPECIFICATION Spec\nINVARIANT Done\nPOSTCONDITION AllConsumed\nCHECK_DEADLOCK FALSE\n"

# property -> (recorder profile, mismatch classes that speak about the property, model config or None)
PROPS = {
    "C06": dict(profile="quant", classes={"level", "mono"}, mc=("MCNum", "quant", ["QuantLevelsInv", "QuantInRange"], ["QuantMonotone"])),
    "C07": dict(profile="quant", classes={"accuracy", "rt", "range"}, mc=("MCNum", "quant", ["QuantAccuracyInv", "QuantRoundTrip"], [])),
    "C08": dict(profile="floatfix", classes=None, mc=("MCNum", "floatfix", ["FloatFixInv"], ["FloatFixMonotone"])),
    "C09": dict(profile="fixfloat", classes=None, mc=("MCNum", "fixfloat", ["FixFloatInv"], ["FixFloatMonotone"])),
    "C16": dict(profile="depth", classes=["bound", "clip", "idem", "mono", "scale"], mc=("MCNum", "depth", ["DepthInv"], ["ClipMonotone"])),
    "C17": dict(profile="freq", classes=None, mc=("MCNum", "freq", ["FreqInv"], ["FreqMonotone"])),
}


# which finite sub-spaces a tier enumerates completely (the rest is boundary-dense + seeded random)
EXHAUSTIVE_PARTS = {
    ("quant", "quick"): ["every value of the 8-bit source types (points)", "every value of the 16-bit source types (run-length records), incl. all widening round trips"],
    ("quant", "thorough"): ["every value of the 8-, 16- and 32-bit source types for all 121 pairs (32-bit: 2^32 values per pair as run-length records), incl. all widening round trips"],
    ("floatfix", "thorough"): ["every non-NaN float32 bit pattern into the 8- and 16-bit destinations (Seg/Clip records)"],
    ("fixfloat", "quick"): ["every value of the 8-bit source types"],
    ("fixfloat", "thorough"): ["every value of the 8- and 16-bit source types", "the round trip of all 2^32 codes of int32 and uint32 through float64 (RTSeg records)"],
    ("depth", "quick"): ["all 64 depths; Scale for all pairs h >= l in 1..64 and all 11 integer types"],
    ("depth", "thorough"): ["all 64 depths; Scale for all pairs h >= l in 1..64 and all 11 integer types"],
}


def event_of(path, line):
    """(Start record of the scan, event) for 1-based `line`."""
    with open(path) as f:
        lines = f.read().splitlines()
    i = line - 1
    s = i
    while s > 0 and json.loads(lines[s]).get("op") != "Start":
        s -= 1
    return json.loads(lines[s]), json.loads(lines[i]), lines[s], lines[i]


def num_of(n):
    v = 0
    for k, limb in enumerate(n[1:]):
        v += limb << (15 * k)
    return -v if n[0] == 1 else v


def matches_known(kf, start, ev, cls):
    m = kf["match"]
    if m.get("fn") and m["fn"] != start.get("fn"):
        return False
    if "sty" in m and m["sty"] != start.get("sty"):
        return False
    if "dty" in m and m["dty"] != start.get("dty"):
        return False
    if "classes" in m and not (set(cls.split("_")) & set(m["classes"])):
        return False
    if "max_depth" in m and start.get("sd", 0) > m["max_depth"]:
        return False
    x = num_of(ev["x"])
    if "src_code" in m and x != m["src_code"]:
        return False
    if "src_code_range" in m:
        lo, hi = m["src_code_range"]
        if ev["op"] == "RTSeg":
            if not (lo <= x and num_of(ev["x1"]) <= hi):
                return False
        elif not (lo <= x <= hi):
            return False
    return True


def validate_num(ctx, stats):
    files = [f for st in stats for f in st["files"]]
    return validate_files(ctx, "NumTrace", NUM_TRACE_CFG, files)


def judge(ctx, mm, classes, prop=None):
    """Split mismatches into violations of this property, known findings and others."""
    prop = prop or ctx.prop
    known = known_findings(prop)
    viol, kn, other = [], [], []
    for m in mm:
        start, ev, sl, el = event_of(m["file"], m["line"])
        m["start"], m["event"], m["lines"] = start, ev, [sl, el]
        if classes is not None and not (set(m["cls"].split("_")) & set(classes)):
            other.append(m)
            continue
        k = next((kf for kf in known if matches_known(kf, start, ev, m["cls"])), None)
        (kn if k else viol).append((m, k))
    return viol, kn, other


def report(ctx, viol, kn, other, prop=None, base=0):
    prop = prop or ctx.prop
    seen = set()
    for m, k in kn:
        key = (k["what"], m["start"].get("sty"), m["start"].get("dty"))
        if key in seen:
            continue
        seen.add(key)
        print("KNOWN-FINDING: property=%s %s (%s %s->%s, class %s, input %s)" % (prop, k["what"], m["start"].get("fn"), m["start"].get("sty"), m["start"].get("dty"), m["cls"], num_of(m["event"]["x"])))
    n = 0
    for m, _ in viol[:20]:
        path = save_replay(ctx, base + n, m["lines"])
        n += 1
        print("VIOLATION property=%s replay=%s" % (prop, path))
        st, ev = m["start"], m["event"]
        print("  %s %s->%s class=%s op=%s x=%s y=%s z=%s f=%s g=%s" % (st.get("fn"), st.get("sty"), st.get("dty"), m["cls"], ev["op"], num_of(ev["x"]), num_of(ev["y"]), num_of(ev["z"]), ev["f"], ev["g"]))
    for m in [m for m in other if m["cls"] == "depth0"][:3]:
        print("NOTE: BitDepth(0) does not return the documented zero bounds (%s); depth 0 is outside %s's domain, not a violation" % (m["event"]["op"], prop))
    for m in [m for m in other if m["cls"] != "depth0"][:5]:
        print("NOTE: numeric mismatch of class %s belongs to another property's check (%s %s->%s)" % (m["cls"], m["start"].get("fn"), m["start"].get("sty"), m["start"].get("dty")))
    return len(viol)


def model(ctx):
    mc = PROPS[ctx.prop].get("mc")
    if not mc or not os.path.exists(os.path.join(ctx.spec, mc[0] + ".tla")):
        return None
    module, fam, invs, props = mc
    bound = {"quick": 5, "thorough": 7}[ctx.tier]
    cfg = "SPECIFICATION Spec\nCONSTANTS\n  Family = \"%s\"\n  MaxDepth = %d\nINVARIANTS\n%sPROPERTIES\n%sCHECK_DEADLOCK FALSE\n" % (
        fam, bound, "".join("  %s\n" % i for i in invs), "".join("  %s\n" % p for p in props))
    if not props:
        cfg = cfg.replace("PROPERTIES\n", "")
    return model_check(ctx, module, cfg, timeout=2400, tag="MCNum-" + ctx.prop)


def apalache_quant(ctx):
    """Symbolic complement (C06/C07): for REAL depth pairs the reference requantisation satisfies range, levels, accuracy,
    order and round trip for EVERY source value (Apalache, Init => Inv at length 0; strict monotonicity as negative
    control on a narrowing pair). Tool trouble only degrades the evidence."""
    import concurrent.futures, shutil, subprocess
    if not shutil.which("apalache-mc"):
        return dict(ran=False, reason="apalache-mc not on PATH")
    d = os.path.join(ctx.work, "apaq")
    os.makedirs(d, exist_ok=True)
    shutil.copy(os.path.join(ctx.spec, "QuantApa.tla"), d)
    combos = [(ss, sd, ds, dd) for ss in (True, False) for ds in (True, False) for sd in (8, 16, 32, 64) for dd in (8, 16, 32, 64)]
    if ctx.tier == "quick":
        combos = [c for i, c in enumerate(combos) if (i + ctx.seed) % 8 == 0]

    def one(i, c, inv="Inv"):
        ss, sd, ds, dd = c
        name = "q%d%s" % (i, inv)
        open(os.path.join(d, name + ".cfg"), "w").write("CONSTANTS\n  SD = %d\n  DD = %d\n  SS = %s\n  DS = %s\nINIT Init\nNEXT Next\n" % (sd, dd, str(ss).upper(), str(ds).upper()))
        try:
            r = subprocess.run(["apalache-mc", "check", "--config=%s.cfg" % name, "--inv=" + inv, "--length=0", "--out-dir=" + os.path.join(d, "out-" + name), "QuantApa.tla"],
                               cwd=d, capture_output=True, text=True, timeout=600)
        except subprocess.TimeoutExpired:
            return c, "timeout"
        return c, "holds" if "EXITCODE: OK" in r.stdout else "violated" if "EXITCODE: ERROR (12)" in r.stdout else "inconclusive"

    with concurrent.futures.ThreadPoolExecutor(6) as ex:
        res = list(ex.map(lambda ic: one(*ic), enumerate(combos)))
    neg = one(999, (True, 64, False, 8), "Strict")
    shutil.rmtree(d, ignore_errors=True)
    bad = [c for c, r in res if r == "violated"]
    if bad or neg[1] == "holds":
        raise Infra("Apalache: the reference requantisation violates the envelope for %s (negative control: %s): specification error" % (bad, neg[1]))
    out = dict(ran=True, pairs_checked=len(res), hold=sum(1 for _, r in res if r == "holds"), inconclusive=[str(c) for c, r in res if r not in ("holds", "violated")],
               negative_control_strict_monotone=neg[1])
    ctx.note("Apalache: reference requantisation satisfies C06/C07 for ALL source values on %d/%d format pairs (negative control %s)" % (out["hold"], len(res), neg[1]))
    return out


def run(ctx):
    spec = PROPS[ctx.prop]
    mc = model(ctx)
    apa = apalache_quant(ctx) if ctx.prop in ("C06", "C07") else None
    st = ctx.record(spec["profile"])
    if spec["profile"] == "depth":
        # the first bit-depth calls of a process are made by several goroutines at once (lazily built tables would be
        # raced there): a process gets one such shot, so the recorder is run in a few fresh processes
        for k in range(3):
            more = ctx.record("depth", outdir=os.path.join(ctx.work, "tr-depth-%d" % k))
            st["files"] += more["files"]
            st["traces"] += more["traces"]
            st["events"] += more["events"]
            st["cases"] += more["cases"]
            for op, n in more["ops"].items():
                st["ops"][op] = st["ops"].get(op, 0) + n
    ctx.note("recorded %s: %d scans, %d events %s" % (st["profile"], st["traces"], st["events"], st["ops"]))
    if st.get("extra", {}).get("capped_sweeps"):
        ctx.note("WARNING: %d exhaustive sweeps were capped (chaotic output)" % st.get("extra", {})["capped_sweeps"])
    mm, tot = validate_num(ctx, [st])
    ctx.note("validated %d events (%d judged), %d mismatching events (first 60 per file listed)" % (tot["lines"], tot["judged"], tot["bad"]))
    viol, kn, other = judge(ctx, mm, spec["classes"])
    nv = report(ctx, viol, kn, other)
    samples = []
    with open(st["files"][0]) as fh:
        for i, line in enumerate(fh):
            if i >= 5:
                break
            e = json.loads(line)
            samples.append({k: v for k, v in e.items() if v not in ([0], {"cls": "fin", "n": [0], "e": 0}, "", 0)})
    cov = dict(traces_validated_against_impl=st["traces"], samples=samples, evaluations=tot["lines"], events_judged=tot["judged"],
               distinct_nontrivial=st["cases"],
               rule="every event is a distinct exact (input, output) pair, run or round trip produced by the real function; Seg/RTSeg/Clip records stand for every element of a run of consecutive inputs (rule equivalent to checking each element)",
               ops=st["ops"], instantiations=st["types"], known_findings_seen=len(kn), mismatches_other_classes=len(other),
               capped_sweeps=st.get("extra", {}).get("capped_sweeps", 0), exhaustive=False,
               exhaustive_parts=EXHAUSTIVE_PARTS.get((spec["profile"], ctx.tier), []))
    if apa:
        cov["apalache_all_values"] = apa
    if spec["profile"] == "quant":
        cov["points_agreeing_with_reference_function"] = tot["unspec"]      # NumTrace reports it in the summary's third field
        cov["points_recorded"] = st["ops"].get("P", 0)
    if mc:
        cov.update(states=mc["distinct"], transitions=mc["generated"], model=dict(module="MCNum", family=spec["mc"][1], depth=mc["depth"], exhaustive=True))
    write_evidence(ctx, "model_checking", cov,
                   ["TLC/SANY/Json trusted; BigNat.tla is checked against Python integers by the self-test", "the recorder logs exact bit patterns and performs no property arithmetic (run-length records are lossless compression)",
                    "verdicts concern amd64 and the Go toolchain on PATH (float->int conversion of out-of-range values is implementation-defined in Go)"], nv)
    return 1 if nv else 0
