"""check selftest: shows that the binding between specification and code is real.
 1. BigNat.tla agrees with Python integers.
 2. Spec mutants: TLC must refute each mutated operation on the exhaustive model (the invariants are not vacuous).
 3. Trace corruption: one flipped sample / count / capacity / result in a recorded trace must be rejected at that line.
 4. Pool / numeric / shared negative controls (PutAsPinned, pinned UnsignedAsFloat, append hazard)."""
import json, os, random, shutil
from core import *
import signal_family as sf
import pool_family as pf
import num_family as nf
import bignat_selftest

SPEC_MUTANTS = [
    ("Slice offsets in samples instead of frames", "View(x.a, x.off + x.ch*s, x.ch*(e - s), x.cap - x.ch*s, x.ch, x.bd)", "View(x.a, x.off + s, x.ch*(e - s), x.cap - x.ch*s, x.ch, x.bd)", ["SliceSem"]),
    ("Slice keeps the parent's capacity", "x.cap - x.ch*s, x.ch, x.bd))), \"ok\")", "x.cap, x.ch, x.bd))), \"ok\")", ["SliceSem", "TypeOK"]),
    ("Slice drops the bit depth", "x.cap - x.ch*s, x.ch, x.bd))), \"ok\")", "x.cap - x.ch*s, x.ch, 64))), \"ok\")", ["SliceSem"]),
    ("AppendSample without the full check", "    IF x.len = x.cap THEN R(w, \"ok\")\n    ELSE R(W(SetCells(w.mem, x.a, (x.off + x.len + 1) :> val),", "    IF FALSE THEN R(w, \"ok\")\n    ELSE R(W(SetCells(w.mem, x.a, (x.off + x.len + 1) :> val),", ["AppendSampleSem", "TypeOK"]),
    ("Write bounded by capacity instead of length", "LET x == w.views[v]  n == Min(Len(in), x.len) IN\n    RC(W(SetCells", "LET x == w.views[v]  n == Min(Len(in), x.cap) IN\n    RC(W(SetCells", ["WriteReadSem"]),
    ("Append always moves to new storage", "    ELSE IF nl <= d.cap THEN\n", "    ELSE IF nl <= d.cap /\\ FALSE THEN\n", ["AppendSem"]),
    ("Append writes at the wrong offset", "WrittenByAppend(d, s) == (d.off + d.len + 1) .. (d.off + d.len + s.len)", "WrittenByAppend(d, s) == (d.off + d.len + 2) .. (d.off + d.len + s.len + 1)", ["AppendSem", "TypeOK"]),
    ("WriteStriped without zero fill", "IF i < Len(ins[c + 1]) THEN ins[c + 1][i + 1] ELSE 0]), w.views),", "IF i < Len(ins[c + 1]) THEN ins[c + 1][i + 1] ELSE w.mem[x.a][p]]), w.views),", ["StripedSem"]),
    ("frame count rounds down", "ChanLen(n, ch) == IF ch = 0 THEN 0 ELSE (n + ch - 1) \\div ch", "ChanLen(n, ch) == IF ch = 0 THEN 0 ELSE n \\div ch", ["WriteReadSem", "AppendSampleSem", "SliceSem"]),
    ("Convert uses max instead of min", "LET s == w.views[sv]  d == w.views[dv]  n == Min(s.len, d.len) IN", "LET s == w.views[sv]  d == w.views[dv]  n == Max(s.len, d.len) IN", ["ConvertSem", "TypeOK"]),
    ("channel index multiplies", "Pos(x, c, i)   == x.ch * i + c", "Pos(x, c, i)   == c * i", ["ChannelSem", "StripedSem"]),
]


def spec_mutants(ctx):
    ok = 0
    src = open(os.path.join(VERIF, "spec", "Signal.tla")).read()
    for name, old, new, invs in SPEC_MUTANTS:
        if old not in src:
            raise Infra("spec mutant %r: pattern not found in Signal.tla" % name)
        open(os.path.join(ctx.spec, "Signal.tla"), "w").write(src.replace(old, new, 1))
        cfg = "SPECIFICATION Spec\nCONSTANTS\n" + sf.MC_CONSTS["quick"] + "INVARIANTS\n" + "".join("  %s\n" % i for i in invs) + "CHECK_DEADLOCK FALSE\n"
        rc, out = ctx.tlc("MCSignal", cfg, timeout=600, tag="mutant-%d" % ok)
        refuted = "is violated" in out or "Attempted to" in out or "out of bounds" in out
        print("spec mutant %-50s %s" % (name, "refuted" if refuted else "NOT REFUTED"))
        if not refuted:
            print(tail(out, 15))
            return False
        ok += 1
    open(os.path.join(ctx.spec, "Signal.tla"), "w").write(src)
    return True


NUM_MUTANTS = [   # (name, old, new, family, invariants, properties)
    ("widening without the -1 for positive amplitudes", "ELSE IF a > 0 THEN (a + 1) * Pow(dd - sd) - 1 ELSE a * Pow(dd - sd))", "ELSE IF a > 0 THEN (a + 1) * Pow(dd - sd) ELSE a * Pow(dd - sd))", "quant", ["QuantInRange", "QuantLevelsInv"], []),
    ("widening by plain shift (highest code not reached)", "ELSE IF a > 0 THEN (a + 1) * Pow(dd - sd) - 1 ELSE a * Pow(dd - sd))", "ELSE a * Pow(dd - sd))", "quant", ["QuantLevelsInv"], []),
    ("narrowing two steps off", "IF sd >= dd THEN (IF ss THEN TruncDiv(a, Pow(sd - dd)) ELSE FloorDiv(a, Pow(sd - dd)))", "IF sd > dd THEN (IF ss THEN TruncDiv(a, Pow(sd - dd)) - 2 ELSE FloorDiv(a, Pow(sd - dd)))\n      ELSE IF sd = dd THEN a", "quant", ["QuantAccuracyInv", "QuantInRange"], []),
    ("float to fixed without clipping", "    IF v >= One THEN nHighest(sg, d)\n    ELSE IF v <= -One THEN nLowest(sg, d)\n    ELSE nCode", "    IF FALSE THEN nHighest(sg, d)\n    ELSE IF FALSE THEN nLowest(sg, d)\n    ELSE nCode", "floatfix", ["FloatFixInv"], []),
    ("float to fixed with one full scale for both signs", "IF v > 0 THEN TruncDiv(v * msv, One) ELSE TruncDiv(v * (msv + 1), One))", "TruncDiv(v * (msv + 2), One))", "floatfix", ["FloatFixInv"], []),
    ("clipping to the wrong bound", "RefClipS(b, v) == IF v < RefMinS(b) THEN RefMinS(b) ELSE IF v > RefMaxS(b) THEN RefMaxS(b) ELSE v", "RefClipS(b, v) == IF v < RefMinS(b) THEN RefMinS(b) ELSE IF v > RefMaxS(b) THEN RefMinS(b) ELSE v", "depth", ["DepthInv"], ["ClipMonotone"]),
    ("frequency rounding down instead of to nearest", "Nearest(n, m) == {k \\in ((n \\div m) - 1)..((n \\div m) + 2) : 2 * (k * m - n) <= m /\\ 2 * (n - k * m) <= m}", "Nearest(n, m) == {n \\div m}", "freq", ["FreqInv"], []),
]


def num_mutants(ctx):
    src = open(os.path.join(VERIF, "spec", "MCNum.tla")).read()
    good = True
    for name, old, new, fam, invs, props in NUM_MUTANTS:
        old, new = old.replace("\\n", "\n").replace("\\\\", "\\"), new.replace("\\n", "\n").replace("\\\\", "\\")
        if old not in src:
            raise Infra("numeric spec mutant %r: pattern not found in MCNum.tla" % name)
        open(os.path.join(ctx.spec, "MCNum.tla"), "w").write(src.replace(old, new, 1))
        cfg = "SPECIFICATION Spec\nCONSTANTS\n  Family = \"%s\"\n  MaxDepth = 5\nINVARIANTS\n%s%sCHECK_DEADLOCK FALSE\n" % (
            fam, "".join("  %s\n" % i for i in invs), ("PROPERTIES\n" + "".join("  %s\n" % p for p in props)) if props else "")
        rc, out = ctx.tlc("MCNum", cfg, timeout=600, tag="nummut")
        refuted = "is violated" in out
        print("numeric spec mutant %-55s %s" % (name, "refuted" if refuted else "NOT REFUTED"))
        good = good and refuted
    open(os.path.join(ctx.spec, "MCNum.tla"), "w").write(src)
    return good


def corruptions(ctx):
    st = ctx.record("hist", shards=1)
    path = st["files"][0]
    lines = open(path).read().splitlines()
    rnd = random.Random(ctx.seed)
    good = True
    for kind in ("sample", "cap", "cnt", "res", "len"):
        for attempt in range(200):
            i = rnd.randrange(1, min(len(lines), 1500))
            e = json.loads(lines[i])
            if e["op"] in ("Reset", "Drop", "Observe") or not e["obs"]:
                continue
            if kind == "sample":
                vs = [v for v in e["obs"] if v["data"]]
                if not vs:
                    continue
                v = rnd.choice(vs)
                v["data"][rnd.randrange(len(v["data"]))] += 1
            elif kind == "cap":
                rnd.choice(e["obs"])["capacity"] += 1
            elif kind == "len":
                rnd.choice(e["obs"])["len"] += 1
            elif kind == "cnt":
                if e["cnt"] < 0:
                    continue
                e["cnt"] += 1
            elif kind == "res":
                e["res"] = "panic" if e["res"] == "ok" else "ok"
            break
        cp = os.path.join(ctx.work, "corrupt-%s.ndjson" % kind)
        pre = trace_prefix(path, i + 1)
        start = i + 1 - len(pre)
        out = lines[:i] + [json.dumps(e)] + lines[i + 1:]
        open(cp, "w").write("\n".join(out) + "\n")
        mm, tot = validate_files(ctx, "SignalTrace", sf.TRACE_CFG, [cp])
        hit = any(m["line"] == i + 1 for m in mm)
        print("trace corruption %-7s at line %5d (%s): %s" % (kind, i + 1, e["op"], "rejected at that line" if hit and len(mm) == 1 else "NOT rejected correctly: %s" % [(m["line"], m["op"]) for m in mm]))
        good = good and hit and len(mm) == 1
    return good


def main(a):
    ctx = Ctx("selftest", "quick", a.seed)
    ok = True
    p = os.path.join(ctx.work, "bignat.ndjson")
    bignat_selftest.gen(p, n=600, seed=a.seed)
    mm, tot = validate_files(ctx, "BigNatTest", "SPECIFICATION Spec\nINVARIANT Done\nPOSTCONDITION AllConsumed\nCHECK_DEADLOCK FALSE\n", [p])
    print("BigNat vs Python integers: %d lines, %d disagreements" % (tot["lines"], len(mm)))
    ok = ok and not mm
    ok = spec_mutants(ctx) and ok
    ok = num_mutants(ctx) and ok
    ok = corruptions(ctx) and ok
    pf.mutant_refuted(ctx, pf.MC[("C10", "quick")])
    print("pool spec mutant PutAsPinned: refuted")
    rc, out = ctx.tlc("MCNum", 'SPECIFICATION Spec\nCONSTANTS\n  Family = "fixfloat_pinned"\n  MaxDepth = 5\nINVARIANTS\n  FixFloatInv\nPROPERTIES\n  FixFloatMonotone\nCHECK_DEADLOCK FALSE\n', tag="pinnedUAF")
    r = "FixFloatMonotone is violated" in out
    print("numeric spec mutant pinned UnsignedAsFloat: %s" % ("refuted" if r else "NOT REFUTED"))
    ok = ok and r
    # soundness lemmas of the run-length records, machine-checked with TLAPS (skipped when tlapm is unavailable)
    import shutil, subprocess
    if shutil.which("tlapm"):
        d = os.path.join(ctx.work, "tlaps")
        os.makedirs(d, exist_ok=True)
        shutil.copy(os.path.join(ctx.spec, "SegLemmas.tla"), d)
        try:
            r = subprocess.run(["tlapm", "--threads", "8", "SegLemmas.tla"], cwd=d, capture_output=True, text=True, timeout=600)
            proved = "obligations proved" in (r.stdout + r.stderr) and "failed" not in (r.stdout + r.stderr).lower()
        except subprocess.TimeoutExpired:
            proved = False
        print("TLAPS SegLemmas (run-length records stand for every element of a run): %s" % ("all obligations proved" if proved else "NOT PROVED"))
        ok = ok and proved
    print("SELFTEST", "PASSED" if ok else "FAILED")
    return 0 if ok else 1
