"""Source of MANIFEST.json (bin/mkmanifest writes it)."""
SIGNAL_NOTE = ("Trusted: TLC/SANY, the CommunityModules Json reader, the Go recorder (executes the public API and logs "
               "arguments, results and the API projection of every live view; contains no expectation), the Go toolchain on amd64. "
               "Model bounds (quick): <=2 views, <=2 arrays, <=4 cells, 0..2 channels; traces use up to 6 views, 8 channels.")
TECH = "TLA+ spec (Signal.tla) model-checked with TLC + TLC trace validation of events recorded from the real library"

CHECKS = {
 "C01": dict(level="model_checking", ref="5/C01", technique=TECH,
   text="Write/WriteStriped/Read/ReadStriped are actions of Signal.tla; TLC checks on the exhaustive small model that they imply the property (footprint, layout channels*i+c, zero fill, frame count, read-back). The real functions are then run for all 169 caller/buffer element-type pairs over windows, uneven/empty/nil channel slices and every input length 0..len+2, and every event (returned count, caller slice afterwards, full contents of every live view incl. spare capacity) is validated by TLC against the specification."),
 "C02": dict(level="model_checking", ref="5/C02", technique=TECH,
   text="SliceOk/SlicePanic of Signal.tla with invariants SliceSem (shape, cell identity with the parent, parent unchanged, panic iff start<0, start>end or end>capacity), SliceCompose and Aliasing, exhaustively on the small model; every (start,end) in -2..capacity+2 on windows of every element type is executed on the real library, followed by writes through child, parent and root and nested slicing, all validated event by event (aliasing is inferred by the spec world, never logged)."),
 "C03": dict(level="model_checking", ref="5/C03", technique=TECH,
   text="AppendF (in place / grow / self / panic) with invariant AppendSem (per-channel concatenation, length, whole-frame capacity, source unchanged, in place iff it fits with all other views seeing the samples, fresh storage otherwise with old views untouched) on the exhaustive model; destination windows with spare capacity x source lengths from empty to far too large x separate/self/alias sources x all element types are executed and validated, the logged new capacity binding the runtime's growth choice."),
 "C04": dict(level="model_checking", ref="5/C04", technique=TECH,
   text="AppendSampleF with invariant AppendSampleSem (exactly cell Len written, Len+1, storage identity/offset/capacity of every view unchanged, no-op when full) on the exhaustive model; on the real library: every element type, 0..4 channels, windows starting at later frames, zero-capacity buffers, calls far beyond capacity, with a full-capacity alias observing every cell."),
 "C05": dict(level="model_checking", ref="5/C05", technique=TECH,
   text="ConvertF: cells [0,min(len,len)) of the destination get map[source cell], nothing else changes, count = min of per-channel lengths, panic iff channel counts differ (invariant ConvertSem on the exhaustive model). All 169 instantiations are run on spread-out source values, shorter/equal/longer sources, windows, partly filled frames and in-place calls; the per-sample map is obtained from the same real function on one-sample buffers so position-dependence or stray writes are mismatches. FloatAsFloat values (exact / nearest float32, no clipping, Inf/NaN) are additionally decided in the numeric trace spec (FloatTrace)."),
 "C12": dict(level="model_checking", ref="5/C12", technique=TECH,
   text="Signal.tla IS the Go-slice reference model. TLC explores it exhaustively (invariants Aliasing, SliceSem, AppendSem, AppendSampleSem, WriteReadSem); the real library is driven through every operation sequence of depth 2 (thorough: +3 sampled steps) over the alphabet enabled at each state from six prepared worlds, plus long seeded random histories on larger shapes and nine element types with up to 6 live views; every event's projection of every live view is compared with the spec world."),
 "C13": dict(level="model_checking", ref="5/C13", technique=TECH,
   text="AllocF with invariant AllocSem (shape, zero fill, fresh storage disjoint from every live view); all 13 built-in and 13 named element types x channel counts up to 64 x lengths/capacities up to thousands are allocated on the real library, bit depth compared with the spec's TypeBits table of the underlying kind, pairs of allocations stamped and re-read."),
 "C14": dict(level="model_checking", ref="5/C14", technique=TECH,
   text="ChanIndexF/ChanSampleF/ChanSetF (position channels*i+c) with invariant ChannelSem on the exhaustive model; on the real library every channel and index of 1..8-channel parents (whole buffers and windows) with distinct stamps: reported index, value read, exact write footprint, reported shape."),
 "C15": dict(level="model_checking", ref="5/C15", technique=TECH + " + PoolTrace for Put",
   text="Every *Panic outcome of Signal.tla leaves the world unchanged and is enabled exactly on the stated mismatch (StripedPanic, ConvertSem, AppendSem). The real library is driven through all pairs of channel counts 1..4 for all nine conversions and Append, slice counts 0..5 for striped I/O, and wrong-capacity Puts, with recognisable contents; the spec demands panic iff mismatch and an unchanged projection of both operands and caller slices."),
 "C20": dict(level="model_checking", ref="5/C20", technique=TECH,
   text="Zero-channel / zero-capacity shapes are ordinary members of the model's shape alphabet (invariants Inert, ZeroLen). On the real library: the zero-value Allocator and every allocator with one zero field, every element type, through every exported function and method incl. ChannelLength(n,0); counts, panics and projections validated."),
}

NOT_YET = {}
