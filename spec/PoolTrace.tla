----------------------------- MODULE PoolTrace -----------------------------
(***************************************************************************)
(* Trace validation for the pool machine (C10 sequential histories, C11    *)
(* concurrent histories ordered by tickets, Put clause of C15).            *)
(* Events: NewPool (starts a trace), Get, Use, Check, Put, PutForeign.     *)
(* A Get is bound to GetReuse or GetNew by the logged identity: an         *)
(* identity seen before must currently be pooled (else two holders share   *)
(* storage), and whatever Get returns must look exactly like the fresh     *)
(* buffer the specification keeps for it.                                  *)
(***************************************************************************)
EXTENDS Pool, Json, IOUtils

Trace == ndJsonDeserialize(IOEnv.TRACE_FILE)

VARIABLES P, l, tid, dead, nbad, njudged, nreused, kind, ncyc
tvars == <<P, l, tid, dead, nbad, njudged, nreused, kind, ncyc>>

TypeBits(k) ==
    CASE k \in {"int8", "uint8"} -> 8
      [] k \in {"int16", "uint16"} -> 16
      [] k \in {"int32", "uint32", "float32"} -> 32
      [] k \in {"int64", "uint64", "float64", "int", "uint", "uintptr"} -> 64

ViewOf(PP, id, knd) ==
    LET b == PP.bufs[id]  a == PP.alloc IN
    [len |-> b.len, cap |-> Len(b.cells),
     length |-> IF a.ch = 0 THEN 0 ELSE (b.len + a.ch - 1) \div a.ch,
     capacity |-> IF a.ch = 0 THEN 0 ELSE Len(b.cells) \div a.ch,
     ch |-> a.ch, bd |-> TypeBits(knd), data |-> b.cells]

Empty == [alloc |-> [ch |-> 0, l |-> 0, k |-> 0], bufs |-> <<>>, free |-> {}, held |-> <<>>]

(* Trace-local state economy: a pooled buffer is by definition fresh (PutF resets it), so the validator keeps *)
(* cell contents only for buffers that are checked out and keeps `free' as a SET of identities.  Long          *)
(* concurrent runs see thousands of identities (under the race detector sync.Pool drops a quarter of the puts); *)
(* without this the state grows with every identity ever seen and validation becomes quadratic.               *)
Restrict(f, S) == [x \in S |-> f[x]]
TGetReuse(PP, g, id) == [PP EXCEPT !.bufs = (id :> Fresh(PP.alloc)) @@ @, !.free = @ \ {id}, !.held[g] = @ \cup {id}]
TPut(PP, g, id) == [PP EXCEPT !.bufs = Restrict(@, DOMAIN @ \ {id}), !.free = @ \cup {id}, !.held[g] = @ \ {id}]
TForget(PP, g, id) == [PP EXCEPT !.bufs = Restrict(@, DOMAIN @ \ {id}), !.held[g] = @ \ {id}]
TNewPool(alloc, procs) == [alloc |-> alloc, bufs |-> <<>>, free |-> {}, held |-> [g \in procs |-> {}]]
Seen(PP, id) == id \in PP.free \/ \E g \in DOMAIN PP.held : id \in PP.held[g]

Bad(e, cls, exp, got) ==
    /\ PrintT(<<"MISMATCH", l, tid, e.op, cls, exp, got, FALSE>>)
    /\ dead' = TRUE /\ nbad' = nbad + 1 /\ UNCHANGED <<P, tid, njudged, nreused, kind, ncyc>>
Good(PP) == P' = PP /\ njudged' = njudged + 1 /\ UNCHANGED <<dead, tid, kind>>

Init == P = Empty /\ l = 1 /\ tid = 0 /\ dead = FALSE /\ nbad = 0 /\ njudged = 0 /\ nreused = 0 /\ kind = "int8" /\ ncyc = 0

(* C18: a warmed-up get/put cycle with one buffer outstanding performs no allocation.  The budget is a  *)
(* function of the model state: -1 (unconstrained) for the first cycles (sync.Pool sets up its per-P      *)
(* storage), whenever another buffer is outstanding, and for a Get from an empty pool.  Allocation counts   *)
(* are only logged (allocs >= 0) by the measuring recorder: one goroutine, one P, collector off - there    *)
(* sync.Pool returns what was put, so a warmed-up Get from a non-empty pool that allocates a new buffer    *)
(* (the pool declined to keep the one that was put) is over budget as well.                                *)
Warm == ncyc >= 3
NoneHeld == \A g \in DOMAIN P.held : P.held[g] = {}
OnlyHeld(id) == \A g \in DOMAIN P.held : P.held[g] \subseteq {id}
Budget(e) == IF e.op = "Get" /\ (e.reused = 1 \/ P.free # {}) /\ Warm /\ NoneHeld THEN 0
             ELSE IF e.op = "Put" /\ Warm /\ OnlyHeld(e.id) THEN 0 ELSE -1
OverBudget(e) == e.allocs >= 0 /\ Budget(e) >= 0 /\ e.allocs > Budget(e)
CountAlloc(e) == IF OverBudget(e)
                 THEN PrintT(<<"MISMATCH", l, tid, e.op, "alloc", Budget(e), e.allocs, FALSE>>) /\ nbad' = nbad + 1
                 ELSE UNCHANGED nbad

Step(e) ==
    CASE e.op = "Get" ->
           IF e.g \notin DOMAIN P.held THEN Bad(e, "args", "-", "-")
           ELSE IF e.reused = 1 /\ e.id \notin P.free
           THEN Bad(e, "held", "pooled", IF \E g \in DOMAIN P.held : e.id \in P.held[g] THEN "held" ELSE "unknown")
           ELSE IF e.reused = 0 /\ Seen(P, e.id) THEN Bad(e, "args", "-", "-")
           ELSE LET PP == IF e.reused = 1 THEN TGetReuse(P, e.g, e.id) ELSE GetNewF(P, e.g, e.id) IN
                IF ViewOf(PP, e.id, kind) # e.view
                THEN /\ PrintT(<<"EXPECTED", l, ViewOf(PP, e.id, kind)>>)
                     /\ Bad(e, "stale", "fresh", IF e.reused = 1 THEN "reused" ELSE "new")
                ELSE Good(PP) /\ nreused' = nreused + e.reused /\ CountAlloc(e) /\ UNCHANGED ncyc
      [] e.op \in {"Use", "Check"} ->
           IF e.res # "ok" THEN Bad(e, "res", "ok", e.res)        \* none of the holder's operations may panic
           ELSE IF e.g \notin DOMAIN P.held \/ e.id \notin P.held[e.g] THEN Bad(e, "args", "-", "-")
           ELSE LET P1 == IF e.op = "Check" THEN P ELSE UseF(P, e.id, e.kind, e.a)
                    \* a grown buffer has the capacity the runtime chose (logged); the spare cells are zero
                    PP == IF e.op = "Use" /\ e.kind = "AppendGrow" /\ e.cap >= Len(P1.bufs[e.id].cells)
                          THEN [P1 EXCEPT !.bufs[e.id].cells = @ \o [i \in 1..(e.cap - Len(@)) |-> 0]] ELSE P1 IN
                IF ViewOf(PP, e.id, kind) # e.view
                THEN /\ PrintT(<<"EXPECTED", l, ViewOf(PP, e.id, kind)>>)
                     /\ Bad(e, "use", "ok", e.kind)
                ELSE Good(PP) /\ UNCHANGED <<nreused, nbad, ncyc>>
      [] e.op = "Put" ->
           IF e.g \notin DOMAIN P.held \/ e.id \notin P.held[e.g] THEN Bad(e, "args", "-", "-")
           \* a buffer that outgrew the pool's capacity (AppendGrow) is no longer one of the pool's: Put must panic and
           \* change nothing (C15); everything else must be accepted
           ELSE IF Len(P.bufs[e.id].cells) # CapOf(P.alloc)
           THEN (IF e.res = "panic" THEN Good(P) /\ UNCHANGED <<nreused, nbad, ncyc>> ELSE Bad(e, "res", "panic", e.res))
           ELSE IF e.res # "ok" THEN Bad(e, "res", "ok", e.res)
           ELSE Good(TPut(P, e.g, e.id)) /\ UNCHANGED nreused /\ CountAlloc(e) /\ ncyc' = ncyc + 1
      [] e.op = "Forget" ->
           IF e.g \notin DOMAIN P.held \/ e.id \notin P.held[e.g] THEN Bad(e, "args", "-", "-")
           ELSE Good(TForget(P, e.g, e.id)) /\ UNCHANGED <<nreused, nbad, ncyc>>
      [] e.op = "PutForeign" ->        \* C15: wrong total capacity must panic and modify nothing
           LET exp == IF e.cap = CapOf(P.alloc) THEN "ok" ELSE "panic" IN
           IF e.res # exp THEN Bad(e, "res", exp, e.res)
           ELSE IF exp = "panic" /\ e.view # e.before THEN Bad(e, "self", "panic", "panic")
           ELSE IF exp = "ok" THEN dead' = TRUE /\ UNCHANGED <<P, tid, nbad, njudged, nreused, kind, ncyc>>  \* foreign buffer entered the pool: rest unjudged
           ELSE Good(P) /\ UNCHANGED <<nreused, nbad, ncyc>>

Next ==
    /\ l <= Len(Trace) /\ l' = l + 1
    /\ LET e == Trace[l] IN
       IF e.op = "NewPool"
       THEN /\ P' = TNewPool([ch |-> e.ch, l |-> e.l, k |-> e.k], 1..e.procs)
            /\ kind' = e.kind /\ tid' = e.tid /\ dead' = FALSE /\ ncyc' = 0 /\ UNCHANGED <<nbad, njudged, nreused>>
       ELSE IF dead THEN UNCHANGED <<P, tid, dead, nbad, njudged, nreused, kind, ncyc>>
       ELSE Step(e)

Spec == Init /\ [][Next]_tvars

Done == (l = Len(Trace) + 1) => PrintT(<<"SUMMARY", Len(Trace), nbad, nreused, njudged>>)
\* Exclusive(P) is enforced per event by the guards of Get/Use/Put (an id is taken from `free' or is new);
\* the quadratic predicate itself is checked on the exhaustive model only.
Safe == dead \/ (\A g \in DOMAIN P.held : P.held[g] \cap P.free = {})
AllConsumed == TLCGet("stats").diameter - 1 = Len(Trace)
=============================================================================
