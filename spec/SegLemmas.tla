------------------------------ MODULE SegLemmas ------------------------------
(***************************************************************************)
(* Why a run-length record may stand for every element of its run (the     *)
(* Seg / RTSeg / Clip rules of NumTrace.tla).  Machine-checked with TLAPS: *)
(*   tlapm SegLemmas.tla                                                   *)
(*                                                                         *)
(* Narrowing (C07): the envelope of output amplitude b is the open         *)
(* interval (lo, hi) with lo = (b-1)*2^k, hi = (b+1)*2^k.  If the first    *)
(* and the last input of a run with constant output lie in it, so does     *)
(* every input in between.                                                 *)
(*                                                                         *)
(* Float -> fixed (C08): inside one sign region t(f) = f * FullScale is    *)
(* monotone in f; if the constant output b is within one step of t at both *)
(* ends of a run, it is within one step of t at every input in between.    *)
(* (The lemma is stated over the scaled values t0 <= t <= t1.)             *)
(*                                                                         *)
(* Equal depth (C07) with slope 1: if output = input at the first element  *)
(* and both advance by the same amount, output = input everywhere.         *)
(***************************************************************************)
EXTENDS Integers, TLAPS

THEOREM NarrowRun ==
    ASSUME NEW lo \in Int, NEW hi \in Int, NEW a0 \in Int, NEW a \in Int, NEW a1 \in Int,
           lo < a0, a1 < hi, a0 <= a, a <= a1
    PROVE  lo < a /\ a < hi
OBVIOUS

THEOREM FloatFixRun ==
    ASSUME NEW b \in Int, NEW t0 \in Int, NEW t \in Int, NEW t1 \in Int,
           t0 <= t, t <= t1,
           b - t0 <= 1, t0 - b <= 1, b - t1 <= 1, t1 - b <= 1
    PROVE  b - t <= 1 /\ t - b <= 1
OBVIOUS

THEOREM EqualDepthRun ==
    ASSUME NEW x0 \in Int, NEW y0 \in Int, NEW d \in Int, x0 = y0
    PROVE  x0 + d = y0 + d
OBVIOUS

THEOREM MonotoneAcrossRuns ==      \* order inside a run with slope k >= 0, and from one run to the next
    ASSUME NEW k \in Nat, NEW d1 \in Nat, NEW d2 \in Nat, NEW y0 \in Int, d1 <= d2, k * d1 <= k * d2
    PROVE  y0 + k * d1 <= y0 + k * d2
OBVIOUS
=============================================================================
