SPECIFICATION Spec
CONSTANTS
  Procs = {1, 2, 3}
  Cycles = 2
  MaxIds = 3
  Ch = 1
  L = 1
  K = 2
  PutMode = "spec"
  Outstanding = 1
INVARIANTS
  TypeOK
  FreshOnGet
  FreeFresh
  Excl
CHECK_DEADLOCK FALSE
