------------------------------- MODULE MCPool -------------------------------
(* All interleavings of Procs processes doing Cycles get/use/put cycles on one pool, with GC. *)
EXTENDS Pool

CONSTANTS Procs, Cycles, MaxIds, Ch, L, K, PutMode, Outstanding

VARIABLES P, done, last
vars == <<P, done, last>>

Alloc == [ch |-> Ch, l |-> L, k |-> K]
Ids == 1..MaxIds

Init == P = NewPool(Alloc, Procs) /\ done = [g \in Procs |-> 0] /\ last = "none"

GetNew(g) == /\ done[g] < Cycles /\ Cardinality(P.held[g]) < Outstanding
             /\ \E id \in Ids \ DOMAIN P.bufs :
                  /\ id = (IF DOMAIN P.bufs = {} THEN 1 ELSE 1 + CHOOSE m \in DOMAIN P.bufs : \A n \in DOMAIN P.bufs : n <= m)
                  /\ P' = GetNewF(P, g, id) /\ last' = (IF IsFresh(Alloc, P'.bufs[id]) THEN "getfresh" ELSE "getstale")
             /\ UNCHANGED done
GetReuse(g) == /\ done[g] < Cycles /\ Cardinality(P.held[g]) < Outstanding
               /\ \E id \in Range(P.free) : P' = GetReuseF(P, g, id) /\ last' = (IF IsFresh(Alloc, P.bufs[id]) THEN "getfresh" ELSE "getstale")
               /\ UNCHANGED done
Use(g) == \E id \in P.held[g] : LET b == P.bufs[id] IN
             /\ \/ P' = UseF(P, id, "AppendSample", <<1>>)
                \/ b.len > 0 /\ P' = UseF(P, id, "SetSample", <<b.len - 1, 1>>)
                \/ P' = UseF(P, id, "Write", [i \in 1..b.len |-> 1])
                \/ b.len + Ch <= Len(b.cells) /\ P' = UseF(P, id, "Append", [i \in 1..Ch |-> 1])
                \/ \E e \in 0..K : P' = UseF(P, id, "Slice0", <<e>>)
             /\ P' # P
             /\ last' = "none" /\ UNCHANGED done
Put(g) == \E id \in P.held[g] :
             /\ P' = (IF PutMode = "spec" THEN PutF(P, g, id) ELSE PutAsPinned(P, g, id))
             /\ done' = [done EXCEPT ![g] = @ + 1] /\ last' = "none"
GC == \E keep \in {<<>>} \cup {<<P.free[i]>> : i \in DOMAIN P.free} :     \* drop all, or all but one
         /\ P.free # <<>> /\ keep # P.free
         /\ P' = GCF(P, keep) /\ last' = "none" /\ UNCHANGED done

Next == (\E g \in Procs : GetNew(g) \/ GetReuse(g) \/ Use(g) \/ Put(g)) \/ GC
Spec == Init /\ [][Next]_vars

TypeOK == /\ DOMAIN P.bufs \subseteq Ids
          /\ \A id \in DOMAIN P.bufs : P.bufs[id].len \in 0..(Ch * K) /\ Len(P.bufs[id].cells) = Ch * K
FreshOnGet == last # "getstale"
FreeFresh == FreeAreFresh(P)
Excl == Exclusive(P)
NoView == <<P, done>>
=============================================================================
