SPECIFICATION Spec
INVARIANTS
  Done
  WorldOK
POSTCONDITION AllConsumed
CHECK_DEADLOCK FALSE
