------------------------------ MODULE NumTrace ------------------------------
(***************************************************************************)
(* Trace validation of the numeric functions against the envelopes of      *)
(* Num.tla.  The recorder runs the REAL functions and logs exact inputs    *)
(* and outputs (integers as limb sequences, floats as sign/mantissa/       *)
(* exponent from their bit patterns); all arithmetic is done here.         *)
(*                                                                         *)
(* A "Start" event opens a scan (function, formats; uo = 1 marks an        *)
(* unordered scan: points in random order, judged individually).           *)
(* A "Start" event opens a scan (function, formats).  Inside a scan the    *)
(* points come in increasing input order, so order preservation and        *)
(* injectivity are action properties of the scan machine whose state is    *)
(* the previous (input, output) pair.  Seg / RTSeg / Clip records are      *)
(* run-length forms whose rule is equivalent to checking every element.    *)
(* A mismatch is printed (first 60 per file) and counted; it never stops   *)
(* the scan.                                                               *)
(***************************************************************************)
EXTENDS Num, Json, IOUtils, TLC

Trace == ndJsonDeserialize(IOEnv.TRACE_FILE)

VARIABLES l, cur, prev, nbad, njudged, nref
tvars == <<l, cur, prev, nbad, njudged, nref>>

NoPrev == [ok |-> FALSE]
Init == l = 1 /\ cur = [fam |-> "none", tid |-> 0] /\ prev = NoPrev /\ nbad = 0 /\ njudged = 0 /\ nref = 0

(* floats with infinities, ordered *)
FOf(f) == IF f.cls = "inf" THEN [inf |-> IF f.n[1] = 1 THEN -1 ELSE 1, d |-> D0]
          ELSE [inf |-> 0, d |-> DOfJson(f)]
FCmp(u, v) == IF u.inf # v.inf THEN (IF u.inf < v.inf THEN -1 ELSE 1)
              ELSE IF u.inf # 0 THEN 0 ELSE DCmp(u.d, v.d)
DM1 == D(TRUE, <<1>>, 0)
FGe1(u) == u.inf = 1 \/ (u.inf = 0 /\ DLe(D1, u.d))
FLeM1(u) == u.inf = -1 \/ (u.inf = 0 /\ DLe(u.d, DM1))

S == Fmt(cur.ss = 1, cur.sd)
Dst == Fmt(cur.ds = 1, cur.dd)

(* Each checker returns the class of the first violated clause, or "ok".        *)
(* -------- C06 / C07 ----------------------------------------------------------- *)
\* C06 and C07 speak about the same points: every violated clause is named (joined by "_"), so that each property's
\* check sees the clauses that are its own
J(a, b) == IF a = "" THEN b ELSE IF b = "" THEN a ELSE a \o "_" \o b
QuantP(e) ==
    LET x == ZOfJson(e.x)  y == ZOfJson(e.y)  a == Amp(S, x)  b == Amp(Dst, y) IN
    IF ~InRange(S, x) THEN "order"
    ELSE IF ~InRange(Dst, y) THEN "range"
    ELSE LET all == J(J(IF ~QuantAccurate(S, Dst, x, y) THEN "accuracy" ELSE "",
                        IF ~QuantLevels(S, Dst, x, y) THEN "level" ELSE ""),
                      \* an ordered scan may repeat a source value (the same value converted at another position or in
                      \* another call): order preservation then demands the same result
                      IF prev.ok /\ (\/ (ZLt(prev.a, a) /\ ~ZLe(prev.b, b))
                                     \/ (ZEq(prev.a, a) /\ ~ZEq(prev.b, b))) THEN "mono" ELSE "") IN
         IF all # "" THEN all
         ELSE IF prev.ok /\ ZLt(a, prev.a) THEN "order"
         ELSE "ok"
QuantPNext(e) == [ok |-> TRUE, a |-> Amp(S, ZOfJson(e.x)), b |-> Amp(Dst, ZOfJson(e.y))]

QuantSeg(e) ==
    LET x0 == ZOfJson(e.x)  x1 == ZOfJson(e.x1)  y0 == ZOfJson(e.y)  k == ZOfJson(e.k)
        y1 == ZAdd(y0, ZMul(k, ZSub(x1, x0)))
        a0 == Amp(S, x0)  a1 == Amp(S, x1)  b0 == Amp(Dst, y0) IN
    IF ~(InRange(S, x0) /\ InRange(S, x1) /\ ZLe(x0, x1)) THEN "order"
    ELSE IF ~(InRange(Dst, y0) /\ InRange(Dst, y1) /\ ~k.neg) THEN "range"
    ELSE LET acc == \/ ~(QuantAccurate(S, Dst, x0, y0) /\ QuantAccurate(S, Dst, x1, y1))
                    \* interior of the run: runs of one or two elements are covered by their end points; longer ones
                    \* must be constant when narrowing (both envelope bounds are monotone in the input) and have
                    \* slope 1 at equal depth
                    \/ (S.d > Dst.d /\ ~(ZLe(ZSub(x1, x0), Z1) \/ ZEq(k, Z0)))
                    \/ (S.d = Dst.d /\ ~(ZLe(ZSub(x1, x0), Z1) \/ ZEq(k, Z1)))
             lev == \/ ~(QuantLevels(S, Dst, x0, y0) /\ QuantLevels(S, Dst, x1, y1))
                    \/ (ZLe(a0, Z0) /\ ZLe(Z0, a1) /\ ~ZEq(ZSub(b0, ZMul(k, a0)), Z0))   \* amplitude 0 inside the run
             mon == prev.ok /\ ZLt(prev.a, a0) /\ ~ZLe(prev.b, b0)
             all == J(J(IF acc THEN "accuracy" ELSE "", IF lev THEN "level" ELSE ""), IF mon THEN "mono" ELSE "") IN
         IF all # "" THEN all
         ELSE IF prev.ok /\ ~ZLt(prev.a, a0) THEN "order"
         ELSE "ok"
QuantSegNext(e) ==
    LET x0 == ZOfJson(e.x)  x1 == ZOfJson(e.x1)  y0 == ZOfJson(e.y)  k == ZOfJson(e.k) IN
    [ok |-> TRUE, a |-> Amp(S, x1), b |-> Amp(Dst, ZAdd(y0, ZMul(k, ZSub(x1, x0))))]

QuantRT(e) == IF ZEq(ZOfJson(e.z), ZOfJson(e.x)) THEN "ok" ELSE "rt"
RTSegDiff(e) == ZOfJson(e.k)

(* -------- C08 -------------------------------------------------------------------- *)
FloatFixPoint(f, y) ==
    IF FGe1(f) THEN (IF ZEq(y, Highest(Dst)) THEN "ok" ELSE "clip")
    ELSE IF FLeM1(f) THEN (IF ZEq(y, Lowest(Dst)) THEN "ok" ELSE "clip")
    ELSE IF ~InRange(Dst, y) THEN "range"
    ELSE IF ~FloatFixAccurate(Dst, f.d, y) THEN "accuracy"
    ELSE IF f.d.mag = <<>> /\ ~ZEq(Amp(Dst, y), Z0) THEN "zero"
    ELSE "ok"
FloatFixP(e) ==
    LET f == FOf(e.f)  y == ZOfJson(e.y)  r == FloatFixPoint(f, y) IN
    IF r # "ok" THEN r
    ELSE IF prev.ok /\ FCmp(prev.f, f) > 0 THEN "order"
    ELSE IF prev.ok /\ FCmp(prev.f, f) = 0 /\ ~ZEq(prev.y, y) THEN "mono"     \* the same value converted elsewhere: same result
    ELSE IF prev.ok /\ ~ZLe(prev.y, y) THEN "mono"
    ELSE "ok"
FloatFixSeg(e) ==         \* f..f1 strictly inside (-1,1), one sign, constant output y
    LET f0 == FOf(e.f)  f1 == FOf(e.f1)  y == ZOfJson(e.y) IN
    IF ~(f0.inf = 0 /\ f1.inf = 0 /\ DLt(DM1, f0.d) /\ DLt(f1.d, D1) /\ DLe(f0.d, f1.d)
         /\ (f0.d.neg = f1.d.neg) /\ f0.d.mag # <<>> /\ f1.d.mag # <<>>) THEN "order"
    ELSE IF FloatFixPoint(f0, y) # "ok" THEN FloatFixPoint(f0, y)
    ELSE IF FloatFixPoint(f1, y) # "ok" THEN FloatFixPoint(f1, y)
    ELSE IF prev.ok /\ FCmp(prev.f, f0) >= 0 THEN "order"
    ELSE IF prev.ok /\ ~ZLe(prev.y, y) THEN "mono"
    ELSE "ok"
FloatFixClip(e) ==        \* a whole clipped region: every output between ymin (y) and ymax (z)
    LET f0 == FOf(e.f)  f1 == FOf(e.f1)  ymin == ZOfJson(e.y)  ymax == ZOfJson(e.z) IN
    IF ~((FGe1(f0) /\ FGe1(f1)) \/ (FLeM1(f0) /\ FLeM1(f1))) \/ FCmp(f0, f1) > 0 THEN "order"
    ELSE IF FGe1(f0) /\ ~(ZEq(ymin, Highest(Dst)) /\ ZEq(ymax, Highest(Dst))) THEN "clip"
    ELSE IF FLeM1(f0) /\ ~(ZEq(ymin, Lowest(Dst)) /\ ZEq(ymax, Lowest(Dst))) THEN "clip"
    ELSE IF prev.ok /\ FCmp(prev.f, f0) >= 0 THEN "order"
    ELSE IF prev.ok /\ ~ZLe(prev.y, ymin) THEN "mono"
    ELSE "ok"

(* -------- C09 -------------------------------------------------------------------- *)
FixFloatP(e) ==
    LET x == ZOfJson(e.x)  a == Amp(S, x)  g == FOf(e.g) IN
    IF ~InRange(S, x) THEN "order"
    ELSE IF e.g.cls # "fin" THEN "range"
    ELSE IF ~(DLe(DM1, g.d) /\ DLe(g.d, D1)) THEN "range"
    ELSE IF ZEq(x, Lowest(S)) /\ ~DEq(g.d, DM1) THEN "level"
    ELSE IF ZEq(x, Highest(S)) /\ ~DEq(g.d, D1) THEN "level"
    ELSE IF ZEq(a, Z0) /\ g.d.mag # <<>> THEN "level"
    ELSE IF ~FixFloatAccurate(S, x, g.d, cur.p) THEN "accuracy"
    ELSE IF prev.ok /\ ZLt(a, prev.a) THEN "order"
    ELSE IF prev.ok /\ ZEq(prev.a, a) THEN (IF DEq(prev.g, g.d) THEN "ok" ELSE "mono")   \* the same code converted elsewhere
    ELSE IF prev.ok /\ ~DLe(prev.g, g.d) THEN "mono"
    ELSE IF prev.ok /\ S.d <= 32 /\ cur.p = 53 /\ ~DLt(prev.g, g.d) THEN "strict"
    ELSE "ok"
FixFloatRTDiff(d) ==       \* d = z - x of a round trip through the matching float -> fixed function
    IF S.d <= 32 /\ cur.p = 53 THEN (IF ZEq(d, Z0) THEN "ok" ELSE "rt")
    ELSE IF S.d <= 16 /\ cur.p = 24 THEN (IF ZLe(ZAbs(d), Z1) THEN "ok" ELSE "rt")
    ELSE "ok"

(* -------- C05 value clause: float -> float ------------------------------------------ *)
FloatFloatP(e) ==
    LET narrowing == cur.sd > cur.dd IN
    IF e.f.cls = "nan" THEN (IF e.g.cls = "nan" THEN "ok" ELSE "class")
    ELSE IF e.f.cls = "inf" THEN (IF e.g.cls = "inf" /\ e.g.n[1] = e.f.n[1] THEN "ok" ELSE "class")
    ELSE LET x == DOfJson(e.f) IN
         IF ~narrowing THEN (IF e.g.cls = "fin" /\ DEq(DOfJson(e.g), x) /\ (x.mag # <<>> \/ e.g.n[1] = e.f.n[1]) THEN "ok" ELSE "exact")
         ELSE IF DLt(F32Overflow, DAbs(x)) THEN (IF e.g.cls = "inf" /\ e.g.n[1] = e.f.n[1] THEN "ok" ELSE "clipped")
         ELSE IF DEq(F32Overflow, DAbs(x)) THEN "ok"
         ELSE IF e.g.cls # "fin" THEN "class"
         ELSE IF NearestF32(x, DOfJson(e.g)) THEN "ok" ELSE "nearest"

(* -------- C16 -------------------------------------------------------------------- *)
DepthOp1(e) ==
    LET b == e.b  y == ZOfJson(e.y) IN
    CASE e.op = "MaxS" -> IF ZEq(y, MaxS(b)) THEN "ok" ELSE "bound"
      [] e.op = "MinS" -> IF ZEq(y, MinS(b)) THEN "ok" ELSE "bound"
      [] e.op = "MaxU" -> IF ZEq(y, MaxU(b)) THEN "ok" ELSE "bound"
      [] e.op \in {"ClipS", "ClipU"} ->
           LET x == ZOfJson(e.x)
               lo == IF e.op = "ClipS" THEN MinS(b) ELSE Z0
               hi == IF e.op = "ClipS" THEN MaxS(b) ELSE MaxU(b) IN
           IF ~ZEq(y, ClipTo(lo, hi, x)) THEN "clip"
           ELSE IF ~ZEq(ZOfJson(e.z), y) THEN "idem"
           ELSE IF prev.ok /\ prev.b = b /\ prev.op = e.op /\ ZLe(prev.x, x) /\ ~ZLe(prev.y, y) THEN "mono"
           ELSE "ok"
      [] e.op = "Scale" ->       \* e.sd = bits of the integer type, e.ss = 1 if signed
           LET fits == (e.h - e.l) <= e.sd - (IF e.ss = 1 THEN 2 ELSE 1) IN
           IF fits /\ ~ZEq(y, ZPow2(e.h - e.l)) THEN "scale" ELSE "ok"

\* depth 0 is outside C16's domain (1..64); its documented behaviour (every bound is zero) is specified and
\* compared all the same, under a class of its own
DepthOp(e) == LET v == DepthOp1(e) IN IF e.op # "Scale" /\ e.b = 0 /\ v # "ok" THEN "depth0" ELSE v

(* -------- C17 -------------------------------------------------------------------- *)
MaxRate == D(FALSE, NFromInt(1000000), 0)
Day == Z(FALSE, NFromInt(86400))
FreqOp(e) ==
    LET f == DOfJson(e.f)  x == ZOfJson(e.x)  y == ZOfJson(e.y) IN
    CASE e.op = "Dur" -> IF ~DurationOK(f, x, y) THEN "accuracy"
                         ELSE IF prev.ok /\ prev.op = "Dur" /\ ZLe(prev.x, x) /\ ~ZLe(prev.y, y) THEN "mono" ELSE "ok"
      [] e.op = "Ev"  -> IF ~EventsOK(f, x, y) THEN "accuracy"
                         ELSE IF prev.ok /\ prev.op = "Ev" /\ ZLe(prev.x, x) /\ ~ZLe(prev.y, y) THEN "mono" ELSE "ok"
      [] e.op = "FRT" -> IF DLe(f, MaxRate) /\ ~x.neg /\ DLe(DFromZ(x), DMul(f, DFromZ(Day)))
                            /\ ~ZEq(ZOfJson(e.z), x) THEN "rt" ELSE "ok"

Verdict(e) ==
    CASE cur.fam = "quant" ->
           (CASE e.op = "P" -> QuantP(e) [] e.op = "Seg" -> QuantSeg(e) [] e.op = "RT" -> QuantRT(e)
              [] e.op = "RTSeg" -> IF ZEq(RTSegDiff(e), Z0) THEN "ok" ELSE "rt")
      [] cur.fam = "floatfix" ->
           (CASE e.op = "P" -> FloatFixP(e) [] e.op = "Seg" -> FloatFixSeg(e) [] e.op = "Clip" -> FloatFixClip(e))
      [] cur.fam = "fixfloat" ->
           (CASE e.op = "P" -> FixFloatP(e)
              [] e.op = "RT" -> FixFloatRTDiff(ZSub(ZOfJson(e.z), ZOfJson(e.x)))
              [] e.op = "RTSeg" -> FixFloatRTDiff(RTSegDiff(e)))
      [] cur.fam = "floatfloat" -> FloatFloatP(e)
      [] cur.fam = "depth" -> DepthOp(e)
      [] cur.fam = "freq" -> FreqOp(e)

NextPrev(e) ==
    CASE cur.fam = "quant" /\ e.op = "P" -> QuantPNext(e)
      [] cur.fam = "quant" /\ e.op = "Seg" -> QuantSegNext(e)
      [] cur.fam = "floatfix" /\ e.op = "P" -> [ok |-> TRUE, f |-> FOf(e.f), y |-> ZOfJson(e.y)]
      [] cur.fam = "floatfix" /\ e.op = "Seg" -> [ok |-> TRUE, f |-> FOf(e.f1), y |-> ZOfJson(e.y)]
      [] cur.fam = "floatfix" /\ e.op = "Clip" -> [ok |-> TRUE, f |-> FOf(e.f1), y |-> ZOfJson(e.z)]
      [] cur.fam = "fixfloat" /\ e.op = "P" /\ e.g.cls = "fin" -> [ok |-> TRUE, a |-> Amp(S, ZOfJson(e.x)), g |-> DOfJson(e.g)]
      [] cur.fam = "depth" /\ e.op \in {"ClipS", "ClipU"} -> [ok |-> TRUE, op |-> e.op, b |-> e.b, x |-> ZOfJson(e.x), y |-> ZOfJson(e.y)]
      [] cur.fam = "freq" /\ e.op \in {"Dur", "Ev"} -> [ok |-> TRUE, op |-> e.op, x |-> ZOfJson(e.x), y |-> ZOfJson(e.y)]
      [] OTHER -> prev

Next ==
    /\ l <= Len(Trace) /\ l' = l + 1
    /\ LET e == Trace[l] IN
       IF e.op = "Start"
       THEN cur' = e /\ prev' = NoPrev /\ UNCHANGED <<nbad, njudged, nref>>
       ELSE LET v == Verdict(e) IN
            /\ UNCHANGED cur /\ njudged' = njudged + 1
            /\ nref' = nref + (IF cur.fam = "quant" /\ e.op = "P" /\ ZEq(ZOfJson(e.y), RefQuantZ(S, Dst, ZOfJson(e.x))) THEN 1 ELSE 0)
            /\ IF v = "ok" THEN nbad' = nbad /\ prev' = (IF cur.uo = 1 THEN NoPrev ELSE NextPrev(e))
               ELSE /\ nbad' = nbad + 1
                    /\ prev' = (IF cur.uo = 1 THEN NoPrev ELSE IF v = "order" THEN prev ELSE NextPrev(e))
                    /\ (nbad < 60 => PrintT(<<"MISMATCH", l, cur.tid, e.op, v, "-", "-", FALSE>>))

Spec == Init /\ [][Next]_tvars
\* third field: points on which the code agrees exactly with the reference requantisation (informational)
Done == (l = Len(Trace) + 1) => PrintT(<<"SUMMARY", Len(Trace), nbad, nref, njudged>>)
AllConsumed == TLCGet("stats").diameter - 1 = Len(Trace)
=============================================================================
