-------------------------------- MODULE MCNum --------------------------------
(***************************************************************************)
(* Design-level model checking of the numeric envelopes: for every small   *)
(* format the implementation-shaped reference functions (what the Go code  *)
(* computes: truncating / flooring division when narrowing, (a+1)*2^k-1    *)
(* for positive amplitudes when widening, clip-then-scale-and-truncate for *)
(* floats, the bit-shift definitions of the bounds, round-to-nearest for   *)
(* Frequency) are run through scan machines and checked against the        *)
(* property-level envelopes of Num.tla: levels / accuracy / round trip as  *)
(* invariants, order preservation as an action property.                   *)
(* CONSTANT Family selects the machine, MaxDepth the format bound.         *)
(***************************************************************************)
EXTENDS Num, TLC

CONSTANTS Family, MaxDepth

VARIABLES st        \* scan state: a record, shape depends on Family
vars == <<st>>

Pow(k) == Pow2Small(k)
TruncDiv(a, m) == IF a >= 0 THEN a \div m ELSE -((-a) \div m)
FloorDiv(a, m) == a \div m

(* ---- quant: C06 / C07 -------------------------------------------------------- *)
nLowest(sg, d)  == IF sg THEN -Pow(d - 1) ELSE 0
nHighest(sg, d) == IF sg THEN Pow(d - 1) - 1 ELSE Pow(d) - 1
nAmp(sg, d, c)  == IF sg THEN c ELSE c - Pow(d - 1)
nCode(sg, d, a) == IF sg THEN a ELSE a + Pow(d - 1)
\* what the four Go functions compute, in amplitudes
RefQuant(ss, sd, ds, dd, x) ==
    LET a == nAmp(ss, sd, x) IN
    nCode(ds, dd,
      IF sd >= dd THEN (IF ss THEN TruncDiv(a, Pow(sd - dd)) ELSE FloorDiv(a, Pow(sd - dd)))
      ELSE IF a > 0 THEN (a + 1) * Pow(dd - sd) - 1 ELSE a * Pow(dd - sd))

\* depth 1 is degenerate (the highest code IS the zero-amplitude code), so formats start at depth 2
QuantInit == \E ss, ds \in BOOLEAN, sd, dd \in 2..MaxDepth :
                st = [ss |-> ss, sd |-> sd, ds |-> ds, dd |-> dd, x |-> nLowest(ss, sd),
                      y |-> RefQuant(ss, sd, ds, dd, nLowest(ss, sd))]
QuantNext == /\ st.x < nHighest(st.ss, st.sd)
             /\ st' = [st EXCEPT !.x = @ + 1, !.y = RefQuant(st.ss, st.sd, st.ds, st.dd, st.x + 1)]
QS == Fmt(st.ss, st.sd)
QD == Fmt(st.ds, st.dd)
QuantInRange     == InRange(QD, ZFromInt(st.y))
QuantLevelsInv   == QuantLevels(QS, QD, ZFromInt(st.x), ZFromInt(st.y))
QuantAccuracyInv == QuantAccurate(QS, QD, ZFromInt(st.x), ZFromInt(st.y))
QuantRoundTrip   == st.sd < st.dd => RefQuant(st.ds, st.dd, st.ss, st.sd, st.y) = st.x
QuantMonotone    == [][nAmp(st.ds, st.dd, st'.y) >= nAmp(st.ds, st.dd, st.y)]_vars

(* ---- depth: C16 --------------------------------------------------------------- *)
RefMaxS(b) == Pow(b - 1) - 1          \* 1<<(b-1) - 1
RefMinS(b) == -Pow(b - 1)             \* -1 << (b-1)
RefMaxU(b) == Pow(b) - 1
RefClipS(b, v) == IF v < RefMinS(b) THEN RefMinS(b) ELSE IF v > RefMaxS(b) THEN RefMaxS(b) ELSE v
RefClipU(b, v) == IF v > RefMaxU(b) THEN RefMaxU(b) ELSE v
Span == 40 + Pow(MaxDepth + 1)
DepthInit == \E b \in 1..(MaxDepth + 2), sg \in BOOLEAN :
                st = [b |-> b, sg |-> sg, x |-> (IF sg THEN -Span ELSE 0),
                      y |-> (IF sg THEN RefClipS(b, -Span) ELSE RefClipU(b, 0))]
DepthNext == /\ st.x < Span
             /\ st' = [st EXCEPT !.x = @ + 1, !.y = (IF st.sg THEN RefClipS(st.b, st.x + 1) ELSE RefClipU(st.b, st.x + 1))]
DepthInv ==
    LET lo == IF st.sg THEN MinS(st.b) ELSE Z0
        hi == IF st.sg THEN MaxS(st.b) ELSE MaxU(st.b) IN
    /\ ZEq(ZFromInt(RefMaxS(st.b)), MaxS(st.b)) /\ ZEq(ZFromInt(RefMinS(st.b)), MinS(st.b))
    /\ ZEq(ZFromInt(RefMaxU(st.b)), MaxU(st.b))
    /\ ZEq(ZFromInt(st.y), ClipTo(lo, hi, ZFromInt(st.x)))                         \* nearest bound / identity
    /\ (IF st.sg THEN RefClipS(st.b, st.y) ELSE RefClipU(st.b, st.y)) = st.y       \* idempotent
ClipMonotone == [][st'.y >= st.y]_vars

(* ---- floatfix: C08 on toy floats m * 2^e ---------------------------------------- *)
MBits == 3                                   \* mantissas -7..7
EMin == -(MaxDepth + 2)
EMax == 2
FloatVals == {m * Pow(e - EMin) : m \in -(Pow(MBits) - 1)..(Pow(MBits) - 1), e \in EMin..EMax}   \* in units of 2^EMin
One == Pow(-EMin)
\* trunc(v * fs / One) toward zero
RefFloatFix(sg, d, v) ==
    LET msv == Pow(d - 1) - 1 IN
    IF v >= One THEN nHighest(sg, d)
    ELSE IF v <= -One THEN nLowest(sg, d)
    ELSE nCode(sg, d, IF v > 0 THEN TruncDiv(v * msv, One) ELSE TruncDiv(v * (msv + 1), One))
DyadicOf(v) == D(v < 0, NFromInt(IF v < 0 THEN -v ELSE v), EMin)
FloatFixInit == \E sg \in BOOLEAN, d \in 2..MaxDepth :
                   LET v0 == -(Pow(MBits) - 1) * Pow(EMax - EMin) IN
                   st = [sg |-> sg, d |-> d, v |-> v0, y |-> RefFloatFix(sg, d, v0)]
FloatFixNext == \E v \in FloatVals : v > st.v /\ st' = [st EXCEPT !.v = v, !.y = RefFloatFix(st.sg, st.d, v)]
FloatFixInv ==
    LET Dd == Fmt(st.sg, st.d)  f == DyadicOf(st.v)  y == ZFromInt(st.y) IN
    IF st.v >= One THEN ZEq(y, Highest(Dd))
    ELSE IF st.v <= -One THEN ZEq(y, Lowest(Dd))
    ELSE /\ InRange(Dd, y) /\ FloatFixAccurate(Dd, f, y)
         /\ (st.v = 0 => ZEq(Amp(Dd, y), Z0))
FloatFixMonotone == [][st'.y >= st.y]_vars

(* ---- fixfloat: C09 with q fractional bits of "float" precision ------------------ *)
\* g = round-to-nearest(a / FS) with Q fractional bits, ties away from zero; Pinned = the library's
\* UnsignedAsFloat (negative amplitudes divided by 2^(d-1)-1 and nothing clamps -- kept as a mutant)
Q == 2 * MaxDepth + 2
RoundDiv(n, m) == IF n >= 0 THEN (2 * n + m) \div (2 * m) ELSE -((-2 * n + m) \div (2 * m))
RefFixFloat(d, a) == IF a > 0 THEN RoundDiv(a * Pow(Q), Pow(d - 1) - 1) ELSE RoundDiv(a * Pow(Q), Pow(d - 1))   \* in units 2^-Q
PinnedUnsignedAsFloat(d, a) == IF a > -Pow(d - 1) THEN RoundDiv(a * Pow(Q), Pow(d - 1) - 1) ELSE RoundDiv(a * Pow(Q), Pow(d - 1))
FixFloatRef(d, a) == IF Family = "fixfloat_pinned" THEN PinnedUnsignedAsFloat(d, a) ELSE RefFixFloat(d, a)
FixFloatInit == \E sg \in BOOLEAN, d \in 2..MaxDepth :
                   st = [sg |-> sg, d |-> d, x |-> nLowest(sg, d), g |-> FixFloatRef(d, -Pow(d - 1))]
FixFloatNext == /\ st.x < nHighest(st.sg, st.d)
                /\ st' = [st EXCEPT !.x = @ + 1, !.g = FixFloatRef(st.d, nAmp(st.sg, st.d, st.x + 1))]
GOf(g) == D(g < 0, NFromInt(IF g < 0 THEN -g ELSE g), -Q)
FixFloatInv ==
    LET Sf == Fmt(st.sg, st.d)  x == ZFromInt(st.x)  g == GOf(st.g) IN
    /\ DLe(D(TRUE, <<1>>, 0), g) /\ DLe(g, D1)
    /\ (ZEq(x, Lowest(Sf)) => DEq(g, D(TRUE, <<1>>, 0)))
    /\ (ZEq(x, Highest(Sf)) => DEq(g, D1))
    /\ (ZEq(Amp(Sf, x), Z0) => g.mag = <<>>)
    /\ FixFloatAccurate(Sf, x, g, Q)
FixFloatMonotone == [][st'.g > st.g]_vars          \* strict: distinct samples give distinct values

(* ---- freq: C17, scaled-down clock of R ticks per second --------------------------- *)
R == 60
Nearest(n, m) == {k \in ((n \div m) - 1)..((n \div m) + 2) : 2 * (k * m - n) <= m /\ 2 * (n - k * m) <= m}   \* ties either way
FreqInit == \E f \in 1..(R - 1) : st = [f |-> f, n |-> 0, d |-> 0]
FreqNext == /\ st.n < 3 * st.f
            /\ \E d \in Nearest((st.n + 1) * R, st.f) : st' = [st EXCEPT !.n = @ + 1, !.d = d]
FreqInv == /\ st.d \in Nearest(st.n * R, st.f)
           /\ \A n2 \in Nearest(st.d * st.f, R) : n2 = st.n          \* count -> duration -> count
FreqMonotone == [][st'.d >= st.d]_vars

Init == CASE Family = "quant" -> QuantInit [] Family = "depth" -> DepthInit [] Family = "floatfix" -> FloatFixInit
          [] Family \in {"fixfloat", "fixfloat_pinned"} -> FixFloatInit [] Family = "freq" -> FreqInit
Next == CASE Family = "quant" -> QuantNext [] Family = "depth" -> DepthNext [] Family = "floatfix" -> FloatFixNext
          [] Family \in {"fixfloat", "fixfloat_pinned"} -> FixFloatNext [] Family = "freq" -> FreqNext
Spec == Init /\ [][Next]_vars
=============================================================================
