------------------------------- MODULE Signal -------------------------------
(***************************************************************************)
(* Storage/view machine of pipelined.dev/signal.                           *)
(*                                                                         *)
(* A world is a sequence of arrays (`mem') and a sequence of Go-slice      *)
(* headers (`views') into them.  Every public entry point of the library   *)
(* is one function  world -> [w |-> world', res |-> ..., cnt, vals]  so    *)
(* that the model checker (MCSignal), the trace validator (SignalTrace)    *)
(* and the behaviour generator (SignalGen) share ONE definition of every   *)
(* operation.                                                              *)
(*                                                                         *)
(* Positions are 0-based like in the Go code; TLA+ sequences are 1-based,  *)
(* so interleaved position p of view x is  mem[x.a][x.off + p + 1].        *)
(***************************************************************************)
EXTENDS Integers, Sequences, FiniteSets, TLC

Min(a, b) == IF a < b THEN a ELSE b
Max(a, b) == IF a > b THEN a ELSE b

W(m, vs) == [mem |-> m, views |-> vs]
EmptyWorld == W(<<>>, <<>>)

\* result of an operation: resulting world, outcome class, returned count, values read
R(w, r)          == [w |-> w, res |-> r, cnt |-> -1, vals |-> <<>>]
RC(w, r, c)      == [w |-> w, res |-> r, cnt |-> c,  vals |-> <<>>]
RV(w, r, c, vs)  == [w |-> w, res |-> r, cnt |-> c,  vals |-> vs]

View(a, off, len, cap, ch, bd) ==
    [a |-> a, off |-> off, len |-> len, cap |-> cap, ch |-> ch, bd |-> bd]

\* per-channel length: frames, counting a partly filled last frame (0 for 0 channels)
ChanLen(n, ch) == IF ch = 0 THEN 0 ELSE (n + ch - 1) \div ch
Length(x)      == ChanLen(x.len, x.ch)
Capacity(x)    == IF x.ch = 0 THEN 0 ELSE x.cap \div x.ch
Aligned(x)     == x.ch = 0 \/ x.len % x.ch = 0
Pos(x, c, i)   == x.ch * i + c                          \* interleaved position of (channel c, frame i)
CellAt(w, x, p) == w.mem[x.a][x.off + p + 1]            \* value at position p of view x
Window(x)      == (x.off + 1) .. (x.off + x.cap)        \* absolute (1-based) cells of the capacity window
Readable(x)    == (x.off + 1) .. (x.off + x.len)

\* overwrite cells of array a: f maps absolute 1-based cell index -> value
SetCells(m, a, f) ==
    [m EXCEPT ![a] = [p \in 1..Len(@) |-> IF p \in DOMAIN f THEN f[p] ELSE @[p]]]

(***************************************************************************)
(* Canonical form: arrays without a view are garbage; the remaining ones   *)
(* are renumbered by first reference from `views'.  Makes symmetric worlds *)
(* equal and is invisible through the API.                                 *)
(***************************************************************************)
Canon(w) ==
    LET n       == Len(w.views)
        used    == {w.views[i].a : i \in 1..n}
        \* evaluated once each (functions, not operators): first reference of every array, its rank, and the inverse
        firstOf == [b \in used |-> CHOOSE i \in 1..n : w.views[i].a = b /\ \A j \in 1..(i-1) : w.views[j].a # b]
        rankOf  == [b \in used |-> Cardinality({c \in used : firstOf[c] < firstOf[b]}) + 1]
        arrOf   == [k \in 1..Cardinality(used) |-> CHOOSE b \in used : rankOf[b] = k]
    IN  IF Len(w.mem) = Cardinality(used) /\ (\A b \in used : rankOf[b] = b)
        THEN w                                   \* already canonical (the common case)
        ELSE W([k \in 1..Cardinality(used) |-> w.mem[arrOf[k]]],
               [i \in 1..n |-> [w.views[i] EXCEPT !.a = rankOf[w.views[i].a]]])

----------------------------------------------------------------------------
(* Alloc: make([]T, ch*L, ch*K) -- panics like make() on L > K or negatives *)
AllocF(w, ch, L, K, bd) ==
    IF ch < 0 \/ L < 0 \/ K < 0 THEN R(w, "unspec")                \* outside every listed property
    ELSE IF ch * L > ch * K THEN R(w, "panic")                        \* make([]T, len, cap) with len > cap
    ELSE R(W(Append(w.mem, [i \in 1..(ch*K) |-> 0]),
             Append(w.views, View(Len(w.mem) + 1, 0, ch*L, ch*K, ch, bd))), "ok")

(* Slice(start,end): data[ch*start : ch*end] with Go's two-index bounds      *)
SliceF(w, v, s, e) ==
    LET x == w.views[v] IN
    IF 0 <= x.ch * s /\ x.ch * s <= x.ch * e /\ x.ch * e <= x.cap
    THEN R(W(w.mem, Append(w.views,
               View(x.a, x.off + x.ch*s, x.ch*(e - s), x.cap - x.ch*s, x.ch, x.bd))), "ok")
    ELSE R(w, "panic")

AppendSampleF(w, v, val) ==
    LET x == w.views[v] IN
    IF x.len = x.cap THEN R(w, "ok")
    ELSE R(W(SetCells(w.mem, x.a, (x.off + x.len + 1) :> val),
             [w.views EXCEPT ![v].len = x.len + 1]), "ok")

SetSampleF(w, v, i, val) ==
    LET x == w.views[v] IN
    IF i < 0 \/ i >= x.len THEN R(w, "panic")
    ELSE R(W(SetCells(w.mem, x.a, (x.off + i + 1) :> val), w.views), "ok")

SampleF(w, v, i) ==
    LET x == w.views[v] IN
    IF i < 0 \/ i >= x.len THEN R(w, "panic")
    ELSE RV(w, "ok", -1, <<CellAt(w, x, i)>>)

(***************************************************************************)
(* Append(dst, src): Go append at the cell level, capacity kept a whole    *)
(* number of frames.                                                       *)
(*  - different channel counts: panic, nothing modified                    *)
(*  - fits (len+len <= cap): in place; cells len..len+slen-1 get src's     *)
(*    cells.  If src's readable window overlaps those cells (and only      *)
(*    then) the outcome is outside every listed property: the footprint    *)
(*    and headers are as specified but the written values are taken from   *)
(*    the observation `seen' (havoc + resync).                             *)
(*  - does not fit: dst moves to a fresh array of `newcap' cells, the old   *)
(*    storage is untouched.  The Go runtime picks the size: any whole      *)
(*    number of frames >= the new length is allowed (C03).  When the new   *)
(*    length ends inside a frame (after AppendSample) no listed property   *)
(*    constrains the capacity, so any capacity >= the length is accepted;  *)
(*    the cells are still those of Go's append (C12).  (Before the library *)
(*    was fixed such an append could panic half-way.)                      *)
(***************************************************************************)
WrittenByAppend(d, s) == (d.off + d.len + 1) .. (d.off + d.len + s.len)
AppendOverlaps(d, s)  == d.a = s.a /\ Readable(s) \cap WrittenByAppend(d, s) # {}

AppendF(w, dv, sv, newcap, seen) ==
    LET d == w.views[dv]  s == w.views[sv]  nl == d.len + s.len IN
    IF d.ch # s.ch THEN R(w, "panic")
    ELSE IF nl <= d.cap THEN
         IF AppendOverlaps(d, s)
         THEN R(W(SetCells(w.mem, d.a, [p \in WrittenByAppend(d, s) |-> seen[p - d.off]]),
                  [w.views EXCEPT ![dv].len = nl]), "havoc")
         ELSE R(W(SetCells(w.mem, d.a, [p \in WrittenByAppend(d, s) |->
                                           w.mem[s.a][s.off + (p - d.off - d.len)]]),
                  [w.views EXCEPT ![dv].len = nl]), "ok")
    ELSE IF newcap >= nl /\ (d.ch = 0 \/ newcap % d.ch = 0 \/ nl % d.ch # 0)
         THEN R(Canon(W(Append(w.mem, [p \in 1..newcap |->
                            IF p <= d.len THEN w.mem[d.a][d.off + p]
                            ELSE IF p <= nl THEN w.mem[s.a][s.off + (p - d.len)] ELSE 0]),
                  [w.views EXCEPT ![dv] = View(Len(w.mem) + 1, 0, nl, newcap, d.ch, d.bd)])), "ok")
         ELSE R(w, "badcap")

(* Write(src []S, dst): first min(len, |in|) positions *)
WriteF(w, v, in) ==
    LET x == w.views[v]  n == Min(Len(in), x.len) IN
    RC(W(SetCells(w.mem, x.a, [p \in (x.off + 1)..(x.off + n) |-> in[p - x.off]]), w.views),
       "ok", ChanLen(n, x.ch))

MaxLen(ss) == IF Len(ss) = 0 THEN 0
              ELSE CHOOSE m \in {Len(ss[c]) : c \in 1..Len(ss)} : \A c \in 1..Len(ss) : Len(ss[c]) <= m

(* WriteStriped: frames 0..written-1 of every channel, zero-filling short channels *)
WriteStripedF(w, v, ins) ==
    LET x == w.views[v]
        written == Min(MaxLen(ins), Length(x)) IN
    IF Len(ins) # x.ch THEN R(w, "panic")
    ELSE IF ~Aligned(x) /\ written = Length(x) THEN R(w, "unspec")   \* would touch the partial frame
    ELSE RC(W(SetCells(w.mem, x.a,
                [p \in (x.off + 1)..(x.off + x.ch * written) |->
                    LET q == p - x.off - 1  c == q % x.ch  i == q \div x.ch IN
                    IF i < Len(ins[c + 1]) THEN ins[c + 1][i + 1] ELSE 0]), w.views),
            "ok", written)

(* Read(src, dst []D): vals = what lands in dst[0..n) *)
ReadF(w, v, n) ==
    LET x == w.views[v]  m == Min(n, x.len) IN
    RV(w, "ok", ChanLen(m, x.ch), [k \in 1..m |-> CellAt(w, x, k - 1)])

MaxOf(S) == IF S = {} THEN 0 ELSE CHOOSE m \in S : \A k \in S : k <= m

(* ReadStriped(src, dst [][]D): lens[c] = len(dst[c]) *)
ReadStripedF(w, v, lens) ==
    LET x == w.views[v]
        m(c) == Min(lens[c], Length(x)) IN
    IF Len(lens) # x.ch THEN R(w, "panic")
    ELSE IF ~Aligned(x) /\ \E c \in 1..x.ch : m(c) = Length(x) /\ Pos(x, c - 1, m(c) - 1) >= x.len
         THEN R(w, "unspec")
    ELSE RV(w, "ok", MaxOf({m(c) : c \in 1..x.ch}),
            [c \in 1..x.ch |-> [i \in 1..m(c) |-> CellAt(w, x, Pos(x, c - 1, i - 1))]])

(***************************************************************************)
(* The nine conversions, structurally: position k of the destination gets  *)
(* map[source sample k] for k < min(len, len); `map' (the per-sample       *)
(* function, a set of <<x, y>> pairs) is supplied by the caller of this    *)
(* operator -- C06..C09 constrain it in the numeric modules.               *)
(***************************************************************************)
ApplyMap(map, xv) == IF \E pr \in map : pr[1] = xv
                     THEN (CHOOSE pr \in map : pr[1] = xv)[2] ELSE -999999
ConvertF(w, sv, dv, map) ==
    LET s == w.views[sv]  d == w.views[dv]  n == Min(s.len, d.len) IN
    IF s.ch # d.ch THEN R(w, "panic")
    ELSE IF n > 0 /\ s.a = d.a /\ s.off # d.off
              /\ ((s.off + 1)..(s.off + n)) \cap ((d.off + 1)..(d.off + n)) # {}
         THEN R(w, "unspec")
    ELSE RC(W(SetCells(w.mem, d.a, [p \in (d.off + 1)..(d.off + n) |->
                                      ApplyMap(map, w.mem[s.a][s.off + (p - d.off)])]), w.views),
            "ok", Min(Length(s), Length(d)))

(* Channel views C[T]: channel c of view v *)
ChanIndexF(w, v, c, i)     == RC(w, "ok", Pos(w.views[v], c, i))
ChanSampleF(w, v, c, i)    == SampleF(w, v, Pos(w.views[v], c, i))
ChanSetF(w, v, c, i, val)  == SetSampleF(w, v, Pos(w.views[v], c, i), val)

(* the harness forgets a view *)
DropF(w, v) ==
    R(Canon(W(w.mem, [i \in 1..(Len(w.views) - 1) |-> IF i < v THEN w.views[i] ELSE w.views[i + 1]])), "ok")

----------------------------------------------------------------------------
(* What the public API shows of a world *)
\* `data' is the part of the capacity window the API can reach: Slice(0, Capacity()) -- the whole window whenever the
\* capacity is a whole number of frames (always, except after a growing append with a partly filled last frame)
Reach(x) == IF x.ch = 0 THEN 0 ELSE x.ch * (x.cap \div x.ch)
ProjectView(w, x) ==
    [len |-> x.len, cap |-> x.cap, length |-> Length(x), capacity |-> Capacity(x),
     ch |-> x.ch, bd |-> x.bd, data |-> [p \in 1..Reach(x) |-> w.mem[x.a][x.off + p]]]
Project(w) == [i \in 1..Len(w.views) |-> ProjectView(w, w.views[i])]

(* Structural invariants of every reachable world *)
GoSliceInv(w) ==
    \A i \in 1..Len(w.views) : LET x == w.views[i] IN
        /\ x.a \in 1..Len(w.mem)
        /\ 0 <= x.off /\ 0 <= x.len /\ x.len <= x.cap /\ x.off + x.cap <= Len(w.mem[x.a])
FrameInv(w) ==
    \A i \in 1..Len(w.views) : LET x == w.views[i] IN
        x.ch > 0 => (x.cap % x.ch = 0 /\ x.off % x.ch = 0)
=============================================================================
