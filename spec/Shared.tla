------------------------------- MODULE Shared -------------------------------
(***************************************************************************)
(* Per-access machine for C19: one array shared by R readers, which all    *)
(* use the SAME read-only window, and W writers, each confined to its own  *)
(* window obtained by Slice over a disjoint frame range.  Every process    *)
(* runs one public entry point as a sequence of single memory accesses     *)
(* (header fields and cells, one per step); the footprints are derived     *)
(* from the operation definitions of Signal.tla (same index arithmetic:    *)
(* off + ch*i + c, min(len, n) loops), so the two modules cannot drift.    *)
(*                                                                         *)
(* There is no synchronisation between the processes, so two pending       *)
(* accesses of different processes are concurrent: a state in which two    *)
(* processes are about to touch the same location, at least one writing,   *)
(* is a data race.                                                         *)
(***************************************************************************)
EXTENDS Signal

CONSTANTS Ch,          \* channels
          ROFrames,    \* frames of the read-only window (frames 0..ROFrames-1)
          WFrames,     \* frames per writer window
          Readers, Writers,        \* sets of process ids (disjoint)
          Hazard       \* TRUE: writers may also AppendSample through their window (must race)

NW == Cardinality(Writers)
WIdx(p) == Cardinality({q \in Writers : q < p})            \* 0-based position of writer p
Total == Ch * (ROFrames + NW * WFrames)

\* headers created before the concurrent phase (by Slice on the root)
ROView == View(1, 0, Ch * ROFrames, Total, Ch, 16)          \* shared by all readers; capacity reaches the end
WView(p) == LET s == ROFrames + WIdx(p) * WFrames IN
            View(1, Ch * s, Ch * WFrames, Total - Ch * s, Ch, 16)   \* Slice(s, s+WFrames): Go two-index slice

ReadOps  == {"Sample", "Lens", "Read", "ReadStriped", "Slice", "ChanSample", "ConvSrc"}
WriteOps == {"SetSample", "Write", "WriteStriped", "ConvDst", "ChanSet"} \cup (IF Hazard THEN {"AppendSample"} ELSE {})

Acc(loc, k) == [loc |-> loc, k |-> k]
Hdr(owner) == <<"hdr", owner>>
Cell(i) == <<"cell", i>>                                    \* absolute 1-based cell
SeqOf(n, F(_)) == [i \in 1..n |-> F(i)]

\* cells of view x in striped order (channel outer, frame inner), frames 0..fr-1
Striped(x, fr) == [j \in 1..(x.ch * fr) |-> LET c == (j - 1) \div fr  i == (j - 1) % fr IN x.off + Pos(x, c, i) + 1]

ReaderProg(op) ==
    LET x == ROView  h == <<Acc(Hdr(0), "r")>> IN
    CASE op = "Sample"      -> h \o <<Acc(Cell(x.off + (x.len - 1) + 1), "r")>>
      [] op = "Lens"        -> h
      [] op = "Slice"       -> h                               \* the new header is private
      [] op = "Read"        -> h \o [i \in 1..x.len |-> Acc(Cell(x.off + i), "r")]
      [] op = "ConvSrc"     -> h \o [i \in 1..x.len |-> Acc(Cell(x.off + i), "r")]
      [] op = "ReadStriped" -> h \o [j \in 1..x.len |-> Acc(Cell(Striped(x, Length(x))[j]), "r")]
      [] op = "ChanSample"  -> h \o <<Acc(Cell(x.off + Pos(x, x.ch - 1, 0) + 1), "r")>>

WriterProg(p, op) ==
    LET x == WView(p)  h == <<Acc(Hdr(p), "r")>> IN
    CASE op = "SetSample"    -> h \o <<Acc(Cell(x.off + 1), "w")>>
      [] op = "ChanSet"      -> h \o <<Acc(Cell(x.off + Pos(x, x.ch - 1, Length(x) - 1) + 1), "w")>>
      [] op = "Write"        -> h \o [i \in 1..x.len |-> Acc(Cell(x.off + i), "w")]       \* min(len, n) with n >= len
      [] op = "ConvDst"      -> h \o [i \in 1..x.len |-> Acc(Cell(x.off + i), "w")]
      [] op = "WriteStriped" -> h \o [j \in 1..x.len |-> Acc(Cell(Striped(x, Length(x))[j]), "w")]
      [] op = "AppendSample" -> h \o <<Acc(Cell(x.off + x.len + 1), "w"), Acc(Hdr(p), "w")>>  \* cell Len of the window = neighbour's frame

VARIABLES prog, pc, mem, got
vars == <<prog, pc, mem, got>>
Procs == Readers \cup Writers

InitMem == [i \in 1..Total |-> 100 + i]
Init == /\ \E ro \in [Readers -> ReadOps], wo \in [Writers -> WriteOps] :
              prog = [p \in Procs |-> IF p \in Readers THEN ReaderProg(ro[p]) ELSE WriterProg(p, wo[p])]
        /\ pc = [p \in Procs |-> 1]
        /\ mem = InitMem
        /\ got = [p \in Procs |-> <<>>]

Pending(p) == pc[p] <= Len(prog[p])
NextAcc(p) == prog[p][pc[p]]

Step(p) ==
    /\ Pending(p)
    /\ LET a == NextAcc(p) IN
       /\ pc' = [pc EXCEPT ![p] = @ + 1]
       /\ IF a.loc[1] = "cell"
          THEN IF a.k = "w" THEN mem' = [mem EXCEPT ![a.loc[2]] = p] /\ UNCHANGED got
                            ELSE got' = [got EXCEPT ![p] = Append(@, mem[a.loc[2]])] /\ UNCHANGED mem
          ELSE UNCHANGED <<mem, got>>
    /\ UNCHANGED prog
Next == \E p \in Procs : Step(p)
Spec == Init /\ [][Next]_vars

Conflict(a, b) == a.loc = b.loc /\ (a.k = "w" \/ b.k = "w")
RaceFree == \A p, q \in Procs : (p # q /\ Pending(p) /\ Pending(q)) => ~Conflict(NextAcc(p), NextAcc(q))

\* the sequential outcome: every reader sees the initial contents, every written cell holds its writer's mark
WrittenBy(p) == {prog[p][j].loc[2] : j \in {k \in 1..Len(prog[p]) : prog[p][k].k = "w" /\ prog[p][k].loc[1] = "cell"}}
SeqEquivalent ==
    (\A p \in Procs : ~Pending(p)) =>
        /\ \A i \in 1..Total : mem[i] = (IF \E p \in Writers : i \in WrittenBy(p)
                                         THEN CHOOSE p \in Writers : i \in WrittenBy(p) ELSE InitMem[i])
        /\ \A p \in Readers :
              LET cells == SelectSeq(prog[p], LAMBDA a : a.loc[1] = "cell") IN
              got[p] = [j \in 1..Len(cells) |-> InitMem[cells[j].loc[2]]]
\* writers stay inside their own frame range, readers inside the read-only range
Confined == \A p \in Procs : \A j \in 1..Len(prog[p]) : LET a == prog[p][j] IN
    a.loc[1] = "cell" =>
        IF p \in Readers THEN a.loc[2] \in 1..(Ch * ROFrames)
        ELSE a.loc[2] \in (WView(p).off + 1)..(WView(p).off + Ch * WFrames)
=============================================================================
