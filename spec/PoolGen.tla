------------------------------ MODULE PoolGen ------------------------------
(***************************************************************************)
(* Behaviour generation for the pool machine (spec -> code): random walks  *)
(* over the operations of Pool.tla; the printed history names buffers by   *)
(* the holder's slot (the k-th buffer it currently holds), because which   *)
(* identity a Get returns is sync.Pool's choice.  The Go recorder executes *)
(* the script on a real PoolAllocator; the trace is judged by PoolTrace.   *)
(* Run with:  tlc -simulate num=N -depth D PoolGen                         *)
(***************************************************************************)
EXTENDS Pool, Json, TLCExt

CONSTANTS Ch, L, K, Depth, Outstanding

VARIABLES P, slots, hist, nid
vars == <<P, slots, hist, nid>>

Pick(S) == {RandomElement(S)}
Alloc == [ch |-> Ch, l |-> L, k |-> K]
Init == P = NewPool(Alloc, {1}) /\ slots = <<>> /\ hist = <<>> /\ nid = 0

Log(op) == hist' = Append(hist, op)
DropAt(s, i) == [j \in 1..(Len(s) - 1) |-> IF j < i THEN s[j] ELSE s[j + 1]]

DoGet ==            \* the model takes a pooled buffer when there is one (the real pool may still miss; PoolTrace follows it)
    /\ Len(slots) < Outstanding
    /\ IF P.free # <<>>
       THEN \E id \in Pick(Range(P.free)) : P' = GetReuseF(P, 1, id) /\ slots' = Append(slots, id) /\ UNCHANGED nid
       ELSE P' = GetNewF(P, 1, nid + 1) /\ slots' = Append(slots, nid + 1) /\ nid' = nid + 1
    /\ Log([k |-> "Get", a |-> <<>>])
DoUse == \E i \in Pick(1..Len(slots)) : LET id == slots[i]  b == P.bufs[id] IN
    /\ UNCHANGED <<slots, nid>>
    /\ \E kind \in Pick({"AppendSample", "SetSample", "Write", "Append", "Slice0", "Fill"}) :
      CASE kind = "AppendSample" -> P' = UseF(P, id, kind, <<1>>) /\ Log([k |-> kind, a |-> <<i>>])
        [] kind = "SetSample" /\ b.len > 0 -> \E p \in Pick(0..(b.len - 1)) :
               P' = UseF(P, id, kind, <<p, 1>>) /\ Log([k |-> kind, a |-> <<i, p>>])
        [] kind = "Write" -> \E n \in Pick(0..(b.len + 1)) :
               P' = UseF(P, id, kind, [j \in 1..n |-> 1]) /\ Log([k |-> kind, a |-> <<i, n>>])
        [] kind = "Append" /\ Ch > 0 /\ b.len % Ch = 0 /\ b.len + Ch <= Len(b.cells) ->
               \E f \in Pick(1..((Len(b.cells) - b.len) \div Ch)) :
                 P' = UseF(P, id, kind, [j \in 1..(Ch * f) |-> 1]) /\ Log([k |-> kind, a |-> <<i, f>>])
        [] kind = "Slice0" -> \E e \in Pick(0..K) : P' = UseF(P, id, kind, <<e>>) /\ Log([k |-> kind, a |-> <<i, e>>])
        [] kind = "Fill" -> P' = UseF(UseF(P, id, "Slice0", <<K>>), id, "Write", [j \in 1..(Ch * K) |-> 1])
                            /\ Log([k |-> kind, a |-> <<i>>])
        [] OTHER -> UNCHANGED P /\ UNCHANGED hist
DoPut == \E i \in Pick(1..Len(slots)) :
    /\ P' = PutF(P, 1, slots[i]) /\ slots' = DropAt(slots, i) /\ UNCHANGED nid
    /\ Log([k |-> "Put", a |-> <<i>>])

Next == /\ Len(hist) < Depth
        /\ \E c \in Pick(1..10) :
             IF slots = <<>> \/ (c <= 3 /\ Len(slots) < Outstanding) THEN DoGet
             ELSE IF c <= 7 THEN DoUse ELSE DoPut
Spec == Init /\ [][Next]_vars
Emit == Len(hist) = Depth => PrintT(<<"SCRIPT", ToJson(hist)>>)
=============================================================================
