SPECIFICATION Spec
CONSTANTS
  MaxViews = 5
  MaxCh = 3
  MaxFrames = 3
  Depth = 25
INVARIANT Emit
CHECK_DEADLOCK FALSE
