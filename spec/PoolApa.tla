------------------------------ MODULE PoolApa ------------------------------
(***************************************************************************)
(* Typed copy of the pool machine for Apalache: the freshness/exclusivity  *)
(* invariant is INDUCTIVE, which removes the bound on history length that  *)
(* TLC's exhaustive runs of MCPool have (any number of get/use/put/GC      *)
(* steps, any interleaving).  Checked with                                 *)
(*   apalache-mc check --init=Init    --inv=IndInv --length=0 PoolApa.tla  *)
(*   apalache-mc check --init=IndInit --inv=IndInv --length=1 PoolApa.tla  *)
(* PutMode = "pinned" (zero [0,len) only, keep the length) must make the   *)
(* second obligation fail (negative control).                              *)
(***************************************************************************)
EXTENDS Integers, FiniteSets

CONSTANTS
    \* @type: Str;
    PutMode

Ids == 1..3
Procs == 1..2
Cap == 4            \* channels * capacity
Len0 == 2           \* channels * length of the allocator
Vals == 0..1

VARIABLES
    \* @type: Set(Int);
    live,
    \* @type: Int -> Int;
    blen,
    \* @type: Int -> (Int -> Int);
    cells,
    \* @type: Set(Int);
    free,
    \* @type: Int -> Set(Int);
    held

FreshCells == [i \in 1..Cap |-> 0]
IsFreshBuf(id) == blen[id] = Len0 /\ cells[id] = FreshCells

TypeOK ==
    /\ live \in SUBSET Ids
    /\ blen \in [Ids -> 0..Cap]
    /\ cells \in [Ids -> [1..Cap -> Vals]]
    /\ free \in SUBSET Ids
    /\ held \in [Procs -> SUBSET Ids]

FreeAreFresh == \A id \in free : IsFreshBuf(id)
Exclusive ==
    /\ free \subseteq live
    /\ \A g \in Procs : held[g] \subseteq live /\ held[g] \cap free = {}
    /\ \A g, h \in Procs : g # h => held[g] \cap held[h] = {}

IndInv == TypeOK /\ FreeAreFresh /\ Exclusive
IndInit == IndInv

Init ==
    /\ live = {} /\ free = {}
    /\ blen = [id \in Ids |-> Len0]
    /\ cells = [id \in Ids |-> FreshCells]
    /\ held = [g \in Procs |-> {}]

GetNew(g, id) ==
    /\ id \notin live
    /\ live' = live \cup {id}
    /\ blen' = [blen EXCEPT ![id] = Len0]
    /\ cells' = [cells EXCEPT ![id] = FreshCells]
    /\ held' = [held EXCEPT ![g] = @ \cup {id}]
    /\ UNCHANGED free
GetReuse(g, id) ==
    /\ id \in free
    /\ free' = free \ {id}
    /\ held' = [held EXCEPT ![g] = @ \cup {id}]
    /\ UNCHANGED <<live, blen, cells>>
UseAppendSample(g, id, v) ==
    /\ id \in held[g] /\ blen[id] < Cap
    /\ cells' = [cells EXCEPT ![id] = [@ EXCEPT ![blen[id] + 1] = v]]
    /\ blen' = [blen EXCEPT ![id] = @ + 1]
    /\ UNCHANGED <<live, free, held>>
UseSetSample(g, id, i, v) ==
    /\ id \in held[g] /\ i \in 1..blen[id]
    /\ cells' = [cells EXCEPT ![id] = [@ EXCEPT ![i] = v]]
    /\ UNCHANGED <<live, free, held, blen>>
UseSlice0(g, id, n) ==
    /\ id \in held[g] /\ n \in 0..Cap
    /\ blen' = [blen EXCEPT ![id] = n]
    /\ UNCHANGED <<live, free, held, cells>>
Put(g, id) ==
    /\ id \in held[g]
    /\ held' = [held EXCEPT ![g] = @ \ {id}]
    /\ free' = free \cup {id}
    /\ IF PutMode = "spec"
       THEN blen' = [blen EXCEPT ![id] = Len0] /\ cells' = [cells EXCEPT ![id] = FreshCells]
       ELSE /\ cells' = [cells EXCEPT ![id] = [i \in 1..Cap |-> IF i <= blen[id] THEN 0 ELSE cells[id][i]]]
            /\ UNCHANGED blen
    /\ UNCHANGED live
GC(id) ==              \* the collector drops a pooled buffer
    /\ id \in free
    /\ free' = free \ {id} /\ live' = live \ {id}
    /\ UNCHANGED <<blen, cells, held>>

Next ==
    \E g \in Procs, id \in Ids :
        \/ GetNew(g, id) \/ GetReuse(g, id) \/ Put(g, id) \/ GC(id)
        \/ \E v \in Vals : UseAppendSample(g, id, v)
        \/ \E v \in Vals, i \in 1..Cap : UseSetSample(g, id, i, v)
        \/ \E n \in 0..Cap : UseSlice0(g, id, n)
=============================================================================
