---------------------------- MODULE SignalTrace ----------------------------
(***************************************************************************)
(* Trace validation: code -> spec.  Consumes an ndjson file of events      *)
(* recorded from the real library (one event per public call, with the     *)
(* full API projection of every live view after the call), re-executes     *)
(* every event with the operations of Signal.tla and compares.             *)
(*                                                                         *)
(* A mismatch never disables the step: it is printed                       *)
(*    <<"MISMATCH", line, trace id, op, class, expected res, logged res,   *)
(*      zero-shape flag>>                                                  *)
(* the trace is marked dead and the validator skips to the next "Reset",   *)
(* so every trace of a concatenated file is judged.  Storage identity is   *)
(* never logged: aliasing is inferred (the spec world knows which views    *)
(* share cells; the logged contents of ALL views must follow).             *)
(***************************************************************************)
EXTENDS Signal, Json, IOUtils

Trace == ndJsonDeserialize(IOEnv.TRACE_FILE)

VARIABLES world, l, tid, dead, nbad, nunspec, njudged
tvars == <<world, l, tid, dead, nbad, nunspec, njudged>>

TypeBits(kind) ==
    CASE kind \in {"int8", "uint8"} -> 8
      [] kind \in {"int16", "uint16"} -> 16
      [] kind \in {"int32", "uint32", "float32"} -> 32
      [] kind \in {"int64", "uint64", "float64", "int", "uint", "uintptr"} -> 64

ToSet(s) == {s[i] : i \in 1..Len(s)}
Rep(n, x) == [i \in 1..n |-> x]

(* the operation an event denotes, applied to world w *)
StepF(e, w) ==
    LET a == e.args IN
    CASE e.op = "Alloc"        -> AllocF(w, a[1], a[2], a[3], TypeBits(e.kind))
      [] e.op = "Slice"        -> \* a zero-channel view has no frames: out-of-range frame arguments may either panic
                                  \* or return the empty view (no listed property decides; the code returns the view)
                                  IF w.views[a[1]].ch = 0 /\ ~(a[2] = 0 /\ a[3] = 0) /\ e.res = "panic"
                                  THEN R(w, "panic") ELSE SliceF(w, a[1], a[2], a[3])
      [] e.op = "AppendSample" -> AppendSampleF(w, a[1], a[2])
      [] e.op = "SetSample"    -> SetSampleF(w, a[1], a[2], a[3])
      [] e.op = "Sample"       -> SampleF(w, a[1], a[2])
      [] e.op = "Append"       -> LET dst == IF a[1] <= Len(e.obs) THEN e.obs[a[1]]
                                             ELSE [cap |-> 0, data |-> <<>>] IN
                                  AppendF(w, a[1], a[2], dst.cap, dst.data)
      [] e.op = "Write"        -> WriteF(w, a[1], e.in)
      [] e.op = "WriteStriped" -> WriteStripedF(w, a[1], e.in)
      [] e.op = "Read"         -> LET r == ReadF(w, a[1], a[2]) IN
                                  [r EXCEPT !.vals = @ \o Rep(a[2] - Len(@), e.sent)]
      [] e.op = "ReadStriped"  -> LET r == ReadStripedF(w, a[1], e.lens) IN
                                  IF r.res # "ok" THEN r
                                  ELSE [r EXCEPT !.vals = [c \in 1..Len(@) |->
                                                  @[c] \o Rep(e.lens[c] - Len(@[c]), e.sent)]]
      [] e.op = "Convert"      -> ConvertF(w, a[1], a[2], ToSet(e.map))
      [] e.op = "ChanIndex"    -> ChanIndexF(w, a[1], a[2], a[3])
      [] e.op = "ChanSample"   -> ChanSampleF(w, a[1], a[2], a[3])
      [] e.op = "ChanSet"      -> ChanSetF(w, a[1], a[2], a[3], a[4])
      [] e.op = "ChanShape"    -> RV(w, "ok", -1, <<1, Length(w.views[a[1]]), Capacity(w.views[a[1]])>>)
      [] e.op = "Drop"         -> DropF(w, a[1])
      [] e.op = "ChannelLength"-> RC(w, "ok", ChanLen(a[1], a[2]))
      [] e.op = "Observe"      -> R(w, "ok")
         \* a conversion between two standalone buffers too large to log in full (a = <<channels, source frames,
         \* destination frames, period of the source pattern>>); the recorder logs the outcome compressed (see ResOK)
      [] e.op = "ConvertBig"   -> RV(w, "ok", IF a[2] < a[3] THEN a[2] ELSE a[3], e.vals)

(* views an event operates on (for classification only) *)
Operated(e) ==
    CASE e.op \in {"Alloc", "ChannelLength", "Observe", "ConvertBig"} -> {}
      [] e.op \in {"Append", "Convert"} -> {e.args[1], e.args[2]}
      [] OTHER -> {e.args[1]}

(* allocation budget of an event (C18); -1 = unconstrained *)
Budget(e, w, r) ==
    IF r.res \notin {"ok", "havoc"} THEN -1        \* (an overlapping append within capacity still must not allocate)
    ELSE CASE e.op = "Alloc" -> -1
           [] e.op = "Drop"  -> -1
           [] e.op = "Slice" -> 1
           [] e.op = "Append" -> IF w.views[e.args[1]].len + w.views[e.args[2]].len
                                     <= w.views[e.args[1]].cap THEN 0 ELSE -1
           [] OTHER -> 0

ResOK(e, r) == /\ (r.res = e.res \/ (r.res = "havoc" /\ e.res = "ok"))
               /\ r.cnt = e.cnt /\ r.vals = e.vals
               \* WriteStriped must leave the caller's per-channel slices (elements of the caller's outer slice) alone
               /\ (e.op = "WriteStriped" => e.lens = [c \in 1..Len(e.in) |-> Len(e.in[c])])
               \* ConvertBig: no converted position deviates from the result at the same phase of the source pattern, no
               \* position beyond the common prefix lost its old value, the source is unchanged (first such positions,
               \* -1 = none), and equal source samples gave equal results (position-wise function)
               /\ (e.op = "ConvertBig" => /\ e.lens = <<-1, -1, -1>>
                                           /\ Len(e.vals) = Len(e.in)
                                           /\ \A i, j \in 1..Len(e.in) : e.in[i] = e.in[j] => e.vals[i] = e.vals[j])
Class(e, w, r) ==
    IF e.pf # 0 THEN "proj"
    ELSE IF ~ResOK(e, r) THEN "res"
    ELSE IF e.op = "Observe" THEN "other"
    ELSE IF Len(e.obs) # Len(r.w.views) THEN "self"
    ELSE IF \E v \in Operated(e) : v <= Len(e.obs) /\ e.obs[v] # Project(r.w)[v] THEN "self"
    ELSE IF e.op = "Alloc" /\ Len(e.obs) > 0 /\ e.obs[Len(e.obs)] # Project(r.w)[Len(e.obs)] THEN "self"
    ELSE "other"
ZeroShaped(e, w) ==
    IF e.op = "Alloc" THEN e.args[1] = 0 \/ e.args[3] = 0
    ELSE IF e.op = "ChannelLength" THEN e.args[2] = 0
    ELSE \E v \in Operated(e) : v \in 1..Len(w.views) /\
            \/ w.views[v].ch = 0 \/ w.views[v].cap = 0
            \* C20, last sentence: reads, writes and conversions on ANY zero-length buffer transfer nothing
            \/ (e.op \in {"Read", "Write", "ReadStriped", "WriteStriped", "Convert", "ConvertBig"} /\ w.views[v].len = 0)
ArgsValid(e, w) == \A v \in Operated(e) : v \in 1..Len(w.views)

Init == world = EmptyWorld /\ l = 1 /\ tid = 0 /\ dead = FALSE /\ nbad = 0 /\ nunspec = 0 /\ njudged = 0

Next ==
    /\ l <= Len(Trace) /\ l' = l + 1
    /\ LET e == Trace[l] IN
       IF e.op = "Reset"
       THEN world' = EmptyWorld /\ dead' = FALSE /\ tid' = e.tid /\ UNCHANGED <<nbad, nunspec, njudged>>
       ELSE IF dead THEN UNCHANGED <<world, dead, tid, nbad, nunspec, njudged>>
       ELSE IF ~ArgsValid(e, world)
       THEN /\ PrintT(<<"MISMATCH", l, tid, e.op, "args", "-", e.res, FALSE>>)
            /\ dead' = TRUE /\ nbad' = nbad + 1 /\ UNCHANGED <<world, tid, nunspec, njudged>>
       ELSE LET r == StepF(e, world) IN
         IF r.res = "unspec"
         THEN dead' = TRUE /\ nunspec' = nunspec + 1 /\ UNCHANGED <<world, tid, nbad, njudged>>
         ELSE IF ResOK(e, r) /\ (e.noobs = 1 \/ Project(r.w) = e.obs) /\ e.pf = 0
         THEN /\ world' = r.w /\ njudged' = njudged + 1 /\ UNCHANGED <<dead, tid, nunspec>>
              /\ IF e.allocs >= 0 /\ Budget(e, world, r) >= 0 /\ e.allocs > Budget(e, world, r)
                 THEN /\ PrintT(<<"MISMATCH", l, tid, e.op, "alloc", Budget(e, world, r), e.allocs,
                                  ZeroShaped(e, world)>>)
                      /\ nbad' = nbad + 1
                 ELSE UNCHANGED nbad
         ELSE /\ PrintT(<<"MISMATCH", l, tid, e.op, Class(e, world, r), r.res, e.res, ZeroShaped(e, world)>>)
              \* (the expected state is printed for the reader of the log only; not for worlds with huge arrays)
              /\ ((\A b \in 1..Len(r.w.mem) : Len(r.w.mem[b]) <= 4096) => PrintT(<<"EXPECTED", l, r.res, r.cnt, r.vals, Project(r.w)>>))
              /\ dead' = TRUE /\ nbad' = nbad + 1 /\ UNCHANGED <<world, tid, nunspec, njudged>>

Spec == Init /\ [][Next]_tvars

Done == (l = Len(Trace) + 1) => PrintT(<<"SUMMARY", Len(Trace), nbad, nunspec, njudged>>)
WorldOK == GoSliceInv(world)
AllConsumed == TLCGet("stats").diameter - 1 = Len(Trace)
=============================================================================
