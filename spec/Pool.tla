-------------------------------- MODULE Pool --------------------------------
(***************************************************************************)
(* Pool machine of pipelined.dev/signal's PoolAllocator (C10, C11, Put     *)
(* clause of C15).  A pool state is a record                               *)
(*    [alloc |-> [ch, l, k], bufs |-> id :> [len, cells], free |-> Seq(id),*)
(*     held |-> g :> SUBSET id]                                            *)
(* `id' stands for the identity of a buffer's storage.  Operations are     *)
(* functions on that record so that the model checker (MCPool) and the     *)
(* trace validator (PoolTrace) share them.                                 *)
(*                                                                         *)
(* sync.Pool may miss at any time (per-P caches, victim cache, drops under *)
(* the race detector): a Get either takes ANY pooled buffer or allocates.  *)
(* Put is written as the property requires: reset to the allocator's       *)
(* length and zero the WHOLE capacity.  PutAsPinned (the behaviour of the  *)
(* library before the fix: zero [0,len) only, keep the caller's length)    *)
(* is kept as a named variant that TLC must refute.                        *)
(***************************************************************************)
EXTENDS Integers, Sequences, FiniteSets, TLC

Range(s) == {s[i] : i \in DOMAIN s}
RemoveOne(s, x) == LET i == CHOOSE j \in DOMAIN s : s[j] = x IN
                   [j \in 1..(Len(s) - 1) |-> IF j < i THEN s[j] ELSE s[j + 1]]
PMin(a, b) == IF a < b THEN a ELSE b

CapOf(alloc)  == alloc.ch * alloc.k
Fresh(alloc)  == [len |-> alloc.ch * alloc.l, cells |-> [i \in 1..CapOf(alloc) |-> 0]]
IsFresh(alloc, b) == b = Fresh(alloc)

NewPool(alloc, procs) == [alloc |-> alloc, bufs |-> <<>>, free |-> <<>>, held |-> [g \in procs |-> {}]]

(* Get that misses the pool: a brand-new buffer with a brand-new identity *)
GetNewF(P, g, id) == [P EXCEPT !.bufs = (id :> Fresh(P.alloc)) @@ @, !.held[g] = @ \cup {id}]
(* Get that hits: any pooled buffer, exactly as it was stored *)
GetReuseF(P, g, id) == [P EXCEPT !.free = RemoveOne(@, id), !.held[g] = @ \cup {id}]

(* what a holder may do with its buffer (the property's list) *)
UseF(P, id, kind, a) ==
    LET b == P.bufs[id]  cap == Len(b.cells) IN
    CASE kind = "AppendSample" ->
           IF b.len = cap THEN P
           ELSE [P EXCEPT !.bufs[id] = [len |-> b.len + 1, cells |-> [b.cells EXCEPT ![b.len + 1] = a[1]]]]
      [] kind = "SetSample" -> [P EXCEPT !.bufs[id].cells[a[1] + 1] = a[2]]
      [] kind = "Write" ->      \* a = sequence of values
           [P EXCEPT !.bufs[id].cells = [i \in 1..cap |-> IF i <= PMin(Len(a), b.len) THEN a[i] ELSE @[i]]]
      [] kind = "Append" ->     \* a = the source's samples; only within capacity
           [P EXCEPT !.bufs[id] = [len |-> b.len + Len(a),
                                   cells |-> [i \in 1..cap |-> IF i > b.len /\ i <= b.len + Len(a)
                                                               THEN a[i - b.len] ELSE b.cells[i]]]]
      [] kind = "AppendGrow" -> \* a = the source's samples; beyond the capacity: the buffer moves to new storage
           \* (its capacity is whatever the runtime chose: PoolTrace overrides the length of `cells' from the
           \* observation); such a buffer can no longer be put back (wrong capacity) and is usually forgotten
           [P EXCEPT !.bufs[id] = [len |-> b.len + Len(a), cells |-> SubSeq(b.cells, 1, b.len) \o a]]
      [] kind = "Slice0" ->     \* the holder continues with b.Slice(0, a[1])
           [P EXCEPT !.bufs[id].len = P.alloc.ch * a[1]]

PutF(P, g, id) ==
    [P EXCEPT !.bufs[id] = Fresh(P.alloc), !.free = Append(@, id), !.held[g] = @ \ {id}]
PutAsPinned(P, g, id) ==
    LET b == P.bufs[id] IN
    [P EXCEPT !.bufs[id].cells = [i \in 1..Len(b.cells) |-> IF i <= b.len THEN 0 ELSE b.cells[i]],
              !.free = Append(@, id), !.held[g] = @ \ {id}]
(* the holder walks away from a buffer without putting it back: it is neither held nor pooled any more, so *)
(* no later Get may return it                                                                             *)
ForgetF(P, g, id) == [P EXCEPT !.held[g] = @ \ {id}]
(* a garbage collection may drop any pooled buffers *)
GCF(P, keep) == [P EXCEPT !.free = keep]

(* ---- the properties --------------------------------------------------------- *)
FreeAreFresh(P) == \A i \in DOMAIN P.free : IsFresh(P.alloc, P.bufs[P.free[i]])
Exclusive(P) ==
    /\ \A g, h \in DOMAIN P.held : g # h => P.held[g] \cap P.held[h] = {}
    /\ \A g \in DOMAIN P.held : P.held[g] \cap Range(P.free) = {}
    /\ \A i, j \in DOMAIN P.free : i # j => P.free[i] # P.free[j]
=============================================================================
