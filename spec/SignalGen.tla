------------------------------ MODULE SignalGen ------------------------------
(***************************************************************************)
(* Behaviour generation, spec -> code.  A generation-oriented next-state   *)
(* relation over the SAME operations as the model checker and the trace    *)
(* validator: every step draws one operation and its arguments with        *)
(* RandomElement (bound by \E x \in {RandomElement(S)} so that the logged  *)
(* arguments are the ones of the step taken) from what the specification   *)
(* world enables -- including every panic path, both Append branches and   *)
(* self-append.  The history variable is printed as JSON when a behaviour  *)
(* reaches the requested depth; the Go recorder executes the script on the *)
(* real library and the resulting trace goes through SignalTrace again.    *)
(* Run with:  tlc -simulate num=N -depth D SignalGen                       *)
(***************************************************************************)
EXTENDS Signal, Json, TLCExt

CONSTANTS MaxViews, MaxCh, MaxFrames, Depth

VARIABLES world, hist
vars == <<world, hist>>

NV == Len(world.views)
Pick(S) == {RandomElement(S)}
Op(k, a) == [k |-> k, a |-> a]

Shapes == {sh \in (0..MaxCh) \X (0..MaxFrames) \X (0..MaxFrames) : sh[2] <= sh[3]}
Kinds == {"Alloc", "Slice", "Slice", "AppendSample", "AppendSample", "SetSample", "Sample", "Append", "Append",
          "Write", "WriteStriped", "Read", "ReadStriped", "ChanSet", "ChanSample", "Drop", "Convert"}
KindSeq == <<"Alloc", "Slice", "Slice", "AppendSample", "AppendSample", "SetSample", "Sample", "Append", "Append",
             "Write", "WriteStriped", "Read", "ReadStriped", "ChanSet", "ChanSample", "Drop", "Convert", "Slice", "Append">>

Init == world = EmptyWorld /\ hist = <<>>

Log(op) == hist' = Append(hist, op)

DoAlloc == \E sh \in Pick(Shapes) :
    /\ world' = AllocF(world, sh[1], sh[2], sh[3], 16).w
    /\ Log(Op("Alloc", <<sh[1], sh[2], sh[3]>>))
Skip == UNCHANGED vars

GenStep(k) ==
    IF NV = 0 \/ (k = "Alloc" /\ NV < MaxViews) THEN DoAlloc
    ELSE \E v \in Pick(1..NV) : LET x == world.views[v] IN
      CASE k = "Slice" /\ NV < MaxViews ->
             \E s \in Pick(-1..(Capacity(x) + 1)), e \in Pick(-1..(Capacity(x) + 1)) :
                /\ world' = SliceF(world, v, s, e).w /\ Log(Op("Slice", <<v, s, e>>))
        [] k = "AppendSample" -> world' = AppendSampleF(world, v, 1).w /\ Log(Op("AppendSample", <<v>>))
        [] k = "SetSample" -> \E i \in Pick(-1..x.len) :
                world' = SetSampleF(world, v, i, 1).w /\ Log(Op("SetSample", <<v, i>>))
        [] k = "Sample" -> \E i \in Pick(-1..x.len) : UNCHANGED world /\ Log(Op("Sample", <<v, i>>))
        [] k = "Append" -> \E s \in Pick(1..NV) :
                LET nl == x.len + world.views[s].len
                    r == AppendF(world, v, s, nl + (IF x.ch = 0 THEN 0 ELSE ((x.ch - (nl % x.ch)) % x.ch)), [p \in 1..x.cap |-> 1]) IN
                IF r.res \in {"ok", "panic", "havoc"} THEN world' = r.w /\ Log(Op("Append", <<v, s>>)) ELSE Skip
        [] k = "Write" -> \E n \in Pick(0..(x.len + 2)) :
                world' = WriteF(world, v, [i \in 1..n |-> 1]).w /\ Log(Op("Write", <<v, n>>))
        [] k = "Read" -> \E n \in Pick(0..(x.len + 2)) : UNCHANGED world /\ Log(Op("Read", <<v, n>>))
        [] k = "WriteStriped" -> \E nch \in Pick({x.ch, x.ch, x.ch, x.ch + 1, 0}), n \in Pick(0..(Length(x) + 1)) :
                LET r == WriteStripedF(world, v, [c \in 1..nch |-> [i \in 1..n |-> 1]]) IN
                IF r.res # "unspec" THEN world' = r.w /\ Log(Op("WriteStriped", <<v, nch, n>>)) ELSE Skip
        [] k = "ReadStriped" -> \E nch \in Pick({x.ch, x.ch, x.ch, x.ch + 1, 0}), n \in Pick(0..(Length(x) + 1)) :
                LET r == ReadStripedF(world, v, [c \in 1..nch |-> n]) IN
                IF r.res # "unspec" THEN UNCHANGED world /\ Log(Op("ReadStriped", <<v, nch, n>>)) ELSE Skip
        [] k \in {"ChanSet", "ChanSample"} ->
                IF x.ch = 0 \/ Length(x) = 0 THEN Skip
                ELSE \E c \in Pick(0..(x.ch - 1)), i \in Pick(0..(Length(x) - 1)) :
                     IF Pos(x, c, i) >= x.len THEN Skip
                     ELSE IF k = "ChanSet" THEN world' = ChanSetF(world, v, c, i, 1).w /\ Log(Op("ChanSet", <<v, c, i>>))
                     ELSE UNCHANGED world /\ Log(Op("ChanSample", <<v, c, i>>))
        [] k = "Convert" -> \E d \in Pick(1..NV) :
                LET r == ConvertF(world, v, d, {<<0, 1>>, <<1, 0>>}) IN
                IF r.res # "unspec" /\ world.views[d].a # x.a THEN world' = r.w /\ Log(Op("Convert", <<v, d>>)) ELSE Skip
        [] k = "Drop" /\ NV > 1 -> world' = DropF(world, v).w /\ Log(Op("Drop", <<v>>))
        [] OTHER -> Skip

Next == /\ Len(hist) < Depth
        /\ \E j \in Pick(1..Len(KindSeq)) : GenStep(KindSeq[j])
Spec == Init /\ [][Next]_vars

\* prints each completed behaviour once (the generation Next has a single successor per step)
Emit == Len(hist) = Depth => PrintT(<<"SCRIPT", ToJson(hist)>>)
=============================================================================
