------------------------------ MODULE QuantApa ------------------------------
(***************************************************************************)
(* Symbolic complement to MCNum (C06/C07): for one pair of REAL formats    *)
(* (depths 8/16/32/64, signed or unsigned on either side) Apalache checks  *)
(* that the implementation-shaped reference requantisation satisfies the   *)
(* range, level, accuracy, order and round-trip clauses for EVERY source   *)
(* value (not only the small depths TLC enumerates).  Two arbitrary source *)
(* codes x1 <= x2 are chosen by Init; the invariant is checked at length 0.*)
(*   apalache-mc check --cinit=CInit --inv=Inv --length=0 QuantApa.tla     *)
(***************************************************************************)
EXTENDS Integers

CONSTANTS
    \* @type: Int;
    SD,
    \* @type: Int;
    DD,
    \* @type: Bool;
    SS,
    \* @type: Bool;
    DS

VARIABLES
    \* @type: Int;
    x1,
    \* @type: Int;
    x2

Lowest(sg, d)  == IF sg THEN -(2^(d - 1)) ELSE 0
Highest(sg, d) == IF sg THEN 2^(d - 1) - 1 ELSE 2^d - 1
Amp(sg, d, c)  == IF sg THEN c ELSE c - 2^(d - 1)
Code(sg, d, a) == IF sg THEN a ELSE a + 2^(d - 1)
TruncDiv(a, m) == IF a >= 0 THEN a \div m ELSE -((-a) \div m)

\* what the Go functions compute (signed sources truncate toward zero, unsigned sources floor)
Pos(k) == IF k > 0 THEN k ELSE 0
Ref(ss, sd, ds, dd, x) ==
    LET a == Amp(ss, sd, x)
        dn == 2^Pos(sd - dd)
        up == 2^Pos(dd - sd) IN
    Code(ds, dd,
      IF sd >= dd THEN (IF ss THEN TruncDiv(a, dn) ELSE a \div dn)
      ELSE IF a > 0 THEN (a + 1) * up - 1 ELSE a * up)

Init == /\ x1 \in Lowest(SS, SD)..Highest(SS, SD)
        /\ x2 \in Lowest(SS, SD)..Highest(SS, SD)
        /\ x1 <= x2
Next == UNCHANGED <<x1, x2>>

Y(x) == Ref(SS, SD, DS, DD, x)
InRange(x)  == Lowest(DS, DD) <= Y(x) /\ Y(x) <= Highest(DS, DD)
Levels(x)   == /\ (x = Lowest(SS, SD)) => (Y(x) = Lowest(DS, DD))
               /\ (x = Highest(SS, SD)) => (Y(x) = Highest(DS, DD))
               /\ (Amp(SS, SD, x) = 0) => (Amp(DS, DD, Y(x)) = 0)
Accurate(x) == LET a == Amp(SS, SD, x)  b == Amp(DS, DD, Y(x)) IN
               IF SD > DD THEN (b - 1) * 2^Pos(SD - DD) < a /\ a < (b + 1) * 2^Pos(SD - DD)
               ELSE IF SD = DD THEN a = b ELSE TRUE
RoundTrip(x) == SD < DD => Ref(DS, DD, SS, SD, Y(x)) = x
Monotone    == Amp(DS, DD, Y(x1)) <= Amp(DS, DD, Y(x2))

Inv == InRange(x1) /\ Levels(x1) /\ Accurate(x1) /\ RoundTrip(x1) /\ Monotone
\* negative control: strict monotonicity is false when narrowing
Strict == x1 < x2 => Amp(DS, DD, Y(x1)) < Amp(DS, DD, Y(x2))
=============================================================================
