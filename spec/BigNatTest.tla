----------------------------- MODULE BigNatTest -----------------------------
(* Self-test of BigNat against Python integers: every line of the file gives operands and the expected results. *)
EXTENDS BigNat, Json, IOUtils, TLC
Trace == ndJsonDeserialize(IOEnv.TRACE_FILE)
VARIABLES l, nbad
Check(e) ==
    LET a == ZOfJson(e.a)  b == ZOfJson(e.b)
        da == D(a.neg, a.mag, e.ea)  db == D(b.neg, b.mag, e.eb) IN
    /\ ZAdd(a, b) = ZOfJson(e.add)
    /\ ZSub(a, b) = ZOfJson(e.sub)
    /\ ZMul(a, b) = ZOfJson(e.mul)
    /\ ZCmp(a, b) = e.cmp
    /\ ZShl(a, e.k) = ZOfJson(e.shl)
    /\ NShr(a.mag, e.k) = ZOfJson(e.shr).mag
    /\ NBits(a.mag) = e.bits
    /\ DCmp(da, db) = e.dcmp
    /\ DCmp(DAdd(da, db), D(ZOfJson(e.dadd).neg, ZOfJson(e.dadd).mag, e.edadd)) = 0
    /\ DCmp(DMul(da, db), D(ZOfJson(e.mul).neg, ZOfJson(e.mul).mag, e.ea + e.eb)) = 0
Init == l = 1 /\ nbad = 0
Next == /\ l <= Len(Trace) /\ l' = l + 1
        /\ IF Check(Trace[l]) THEN UNCHANGED nbad
           ELSE PrintT(<<"MISMATCH", l, 0, "BigNat", "res", "-", "-", FALSE>>) /\ nbad' = nbad + 1
Spec == Init /\ [][Next]_<<l, nbad>>
Done == (l = Len(Trace) + 1) => PrintT(<<"SUMMARY", Len(Trace), nbad, 0, Len(Trace) - nbad>>)
AllConsumed == TLCGet("stats").diameter - 1 = Len(Trace)
=============================================================================
