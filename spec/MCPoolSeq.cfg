SPECIFICATION Spec
CONSTANTS
  Procs = {1}
  Cycles = 3
  MaxIds = 3
  Ch = 2
  L = 1
  K = 2
  PutMode = "spec"
  Outstanding = 2
INVARIANTS
  TypeOK
  FreshOnGet
  FreeFresh
  Excl
CHECK_DEADLOCK FALSE
