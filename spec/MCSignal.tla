------------------------------ MODULE MCSignal ------------------------------
(***************************************************************************)
(* Exhaustive model of the storage/view machine under small bounds, with   *)
(* the listed properties C01-C05, C12-C15, C20 stated on the model as      *)
(* invariants that quantify over every applicable operation and argument   *)
(* in every reachable world (so each is an action property in disguise:    *)
(* "whenever Op(args) is taken from a reachable world, Post holds").       *)
(***************************************************************************)
EXTENDS Signal, TLC

CONSTANTS MaxViews,      \* live views
          MaxArrays,     \* live arrays
          MaxCells,      \* cells per array
          MaxCh,         \* channel counts 0..MaxCh
          BDs            \* abstract bit depths given to allocations

Vals == {0, 1}           \* data independence: 0 = zero fill, 1 = "written"
BD   == CHOOSE b \in BDs : TRUE

VARIABLE world
vars == <<world>>

NV(w) == Len(w.views)
Views(w) == 1..NV(w)
Frames == 0..MaxCells

Shapes == {sh \in (0..MaxCh) \X (0..MaxCells) \X (0..MaxCells) :
              sh[2] <= sh[3] /\ sh[1] * sh[3] <= MaxCells /\ (sh[1] = 0 => sh[2] = 0 /\ sh[3] \in {0, 1})}

Swap == {<<0, 1>>, <<1, 0>>}         \* the abstract per-sample conversion function

ConstSeqs(n) == {[i \in 1..k |-> x] : k \in 0..n, x \in Vals}
StripedIns(x) == IF x.ch = 0 THEN {<<>>}
                 ELSE [1..x.ch -> {[i \in 1..k |-> 1] : k \in 0..(Length(x) + 1)}]
UpTo(n, ch) == IF ch = 0 THEN n ELSE ((n + ch - 1) \div ch) * ch          \* n rounded up to whole frames
GrowCaps(d, s) == LET nl == d.len + s.len IN        \* the runtime's choice: some whole number of frames >= the length
                  {c \in {UpTo(nl, d.ch), UpTo(nl, d.ch) + d.ch, UpTo(2 * nl, d.ch)} : c <= MaxCells}

Init == world = EmptyWorld

Bounded(w) == NV(w) <= MaxViews /\ Len(w.mem) <= MaxArrays

DoAlloc       == \E sh \in Shapes, bd \in BDs : world' = AllocF(world, sh[1], sh[2], sh[3], bd).w
DoSlice       == \E v \in Views(world), s, e \in -1..(MaxCells + 1) : world' = SliceF(world, v, s, e).w
DoAppendSample== \E v \in Views(world) : world' = AppendSampleF(world, v, 1).w
DoSetSample   == \E v \in Views(world), x \in Vals :
                    \E i \in 0..(world.views[v].len - 1) : world' = SetSampleF(world, v, i, x).w
DoAppend      == \E d, s \in Views(world) :
                    \E nc \in GrowCaps(world.views[d], world.views[s]) \cup {0} :
                       LET r == AppendF(world, d, s, nc, [p \in 1..MaxCells |-> 1]) IN  \* havoc: all ones
                       r.res \in {"ok", "panic", "havoc"} /\ world' = r.w
DoWrite       == \E v \in Views(world) : \E in \in ConstSeqs(world.views[v].len + 1) :
                    world' = WriteF(world, v, in).w
DoWriteStriped== \E v \in Views(world) : \E ins \in StripedIns(world.views[v]) :
                    LET r == WriteStripedF(world, v, ins) IN r.res = "ok" /\ world' = r.w
DoConvert     == \E s, d \in Views(world) :
                    LET r == ConvertF(world, s, d, Swap) IN r.res = "ok" /\ world' = r.w
DoDrop        == \E v \in Views(world) : world' = DropF(world, v).w

Next == /\ (DoAlloc \/ DoSlice \/ DoAppendSample \/ DoSetSample \/ DoAppend \/ DoWrite
             \/ DoWriteStriped \/ DoConvert \/ DoDrop)
        /\ Bounded(world')
Spec == Init /\ [][Next]_vars

----------------------------------------------------------------------------
TypeOK ==
    /\ \A a \in 1..Len(world.mem) : Len(world.mem[a]) <= MaxCells
                                     /\ \A p \in 1..Len(world.mem[a]) : world.mem[a][p] \in Vals
    /\ GoSliceInv(world) /\ FrameInv(world)
    /\ Canon(world) = world

LastView(w) == w.views[NV(w)]
ChanSeq(w, x, c) == [i \in 1..((x.len - c + x.ch - 1) \div x.ch) |-> CellAt(w, x, Pos(x, c, i - 1))]
CellId(x, p) == <<x.a, x.off + p + 1>>

(* ---- C13: allocation -------------------------------------------------- *)
AllocSem == \A sh \in Shapes : LET r == AllocF(world, sh[1], sh[2], sh[3], BD)  y == LastView(r.w) IN
    /\ r.res = "ok"
    /\ y.ch = sh[1] /\ Length(y) = (IF sh[1] = 0 THEN 0 ELSE sh[2])
    /\ Capacity(y) = (IF sh[1] = 0 THEN 0 ELSE sh[3])
    /\ y.len = sh[1] * sh[2] /\ y.cap = sh[1] * sh[3] /\ y.bd = BD
    /\ \A p \in 0..(y.cap - 1) : CellAt(r.w, y, p) = 0
    /\ \A u \in Views(world) : r.w.views[u].a # y.a /\ ProjectView(r.w, r.w.views[u]) = ProjectView(world, world.views[u])

(* ---- C02: slicing ------------------------------------------------------ *)
SliceSem == \A v \in Views(world), s, e \in -1..(MaxCells + 1) :
    LET x == world.views[v]  r == SliceF(world, v, s, e)  y == LastView(r.w) IN
    IF x.ch = 0 THEN r.res = "ok" /\ y.len = 0 /\ y.cap = 0 /\ r.w.mem = world.mem
    ELSE /\ (r.res = "panic") <=> (s < 0 \/ s > e \/ e > Capacity(x))
         /\ r.res = "panic" => r.w = world
         /\ r.res # "panic" =>
              /\ r.res = "ok" /\ NV(r.w) = NV(world) + 1
              /\ y.ch = x.ch /\ y.bd = x.bd
              /\ Length(y) = e - s /\ Capacity(y) = Capacity(x) - s
              /\ \A c \in 0..(x.ch - 1), i \in 0..(Capacity(y) - 1) :
                     CellId(y, Pos(y, c, i)) = CellId(x, Pos(x, c, s + i))
              /\ r.w.mem = world.mem
              /\ \A u \in Views(world) : r.w.views[u] = world.views[u]

SliceCompose == \A v \in Views(world) : LET x == world.views[v] IN
    x.ch > 0 => \A a \in 0..Capacity(x) : \A b \in a..Capacity(x) :
        LET r1 == SliceF(world, v, a, b)  y == LastView(r1.w) IN
        \A c \in 0..Capacity(y) : \A d \in c..Capacity(y) :
            LastView(SliceF(r1.w, NV(r1.w), c, d).w) = LastView(SliceF(world, v, a + c, a + d).w)

(* ---- C03: Append ------------------------------------------------------- *)
AppendSem == \A dv, sv \in Views(world) :
    LET d == world.views[dv]  s == world.views[sv]  nl == d.len + s.len IN
    \A nc \in GrowCaps(d, s) \cup {MaxCells + 1} :
    LET r == AppendF(world, dv, sv, nc, <<>>)  d2 == r.w.views[dv] IN
    IF d.ch # s.ch THEN r.res = "panic" /\ r.w = world
    ELSE (Aligned(d) /\ Aligned(s) /\ ~AppendOverlaps(d, s) /\ (nl <= d.cap \/ nc <= MaxCells)) =>
        /\ r.res = "ok"
        /\ NV(r.w) = NV(world)
        /\ d2.len = nl /\ d2.cap >= d2.len /\ (d.ch > 0 => d2.cap % d.ch = 0)
        /\ d2.ch = d.ch /\ d2.bd = d.bd
        /\ \A c \in 0..(d.ch - 1) : ChanSeq(r.w, d2, c) = ChanSeq(world, d, c) \o ChanSeq(world, s, c)
        /\ sv # dv => /\ r.w.views[sv].len = s.len /\ r.w.views[sv].cap = s.cap   \* source unchanged
                      /\ \A p \in 0..(s.len - 1) : CellAt(r.w, r.w.views[sv], p) = CellAt(world, s, p)
        /\ nl <= d.cap =>           \* in place: same storage, capacity unchanged, others see the samples
              /\ d2 = [d EXCEPT !.len = nl]
              /\ \A u \in Views(world) \ {dv} : r.w.views[u] = world.views[u]
              /\ \A a \in 1..Len(world.mem) : \A p \in 1..Len(world.mem[a]) :
                    (a # d.a \/ p \notin WrittenByAppend(d, s)) => r.w.mem[a][p] = world.mem[a][p]
        /\ nl > d.cap =>           \* moved: fresh storage, old storage and every other view untouched
              /\ \A u \in Views(world) \ {dv} :
                    /\ r.w.views[u].a # d2.a
                    /\ ProjectView(r.w, r.w.views[u]) = ProjectView(world, world.views[u])
              /\ d2.off = 0 /\ d2.cap = nc

(* ---- C04: AppendSample ------------------------------------------------- *)
AppendSampleSem == \A v \in Views(world), val \in Vals :
    LET x == world.views[v]  r == AppendSampleF(world, v, val)  y == r.w.views[v] IN
    /\ r.res = "ok"
    /\ \A u \in Views(world) : LET a == world.views[u]  b == r.w.views[u] IN
          a.a = b.a /\ a.off = b.off /\ a.cap = b.cap /\ (u # v => a = b)
    /\ x.len = x.cap => r.w = world
    /\ x.len < x.cap =>
          /\ y.len = x.len + 1 /\ CellAt(r.w, y, x.len) = val
          /\ Length(y) = (x.len + 1 + x.ch - 1) \div x.ch
          /\ \A a \in 1..Len(world.mem) : \A p \in 1..Len(world.mem[a]) :
                <<a, p>> # CellId(x, x.len) => r.w.mem[a][p] = world.mem[a][p]

(* ---- C01: interleaved / striped I/O ------------------------------------ *)
OnlyCellsChanged(w1, w2, a, S) ==     \* mem differs at most on cells S of array a; headers equal
    /\ w2.views = w1.views /\ Len(w2.mem) = Len(w1.mem)
    /\ \A b \in 1..Len(w1.mem) : Len(w2.mem[b]) = Len(w1.mem[b])
                                  /\ \A p \in 1..Len(w1.mem[b]) : (b # a \/ p \notin S) => w2.mem[b][p] = w1.mem[b][p]

WriteReadSem == \A v \in Views(world) : LET x == world.views[v] IN
    \A in \in ConstSeqs(x.len + 1) :
    LET n == Min(Len(in), x.len)  r == WriteF(world, v, in)  rd == ReadF(r.w, v, Len(in)) IN
    /\ r.res = "ok" /\ r.cnt = ChanLen(n, x.ch)
    /\ OnlyCellsChanged(world, r.w, x.a, (x.off + 1)..(x.off + n))
    /\ rd.vals = SubSeq(in, 1, n) /\ rd.cnt = r.cnt /\ rd.w = r.w
    /\ \A p \in 0..(n - 1) : SampleF(r.w, v, p).vals = <<in[p + 1]>>

StripedSem == \A v \in Views(world) : LET x == world.views[v] IN
    (x.ch > 0 /\ Aligned(x)) => \A ins \in StripedIns(x) :
    LET r == WriteStripedF(world, v, ins)
        wr == Min(MaxLen(ins), Length(x))
        rd == ReadStripedF(r.w, v, [c \in 1..x.ch |-> Len(ins[c])]) IN
    /\ r.res = "ok" /\ r.cnt = wr
    /\ OnlyCellsChanged(world, r.w, x.a, (x.off + 1)..(x.off + x.ch * wr))
    /\ \A c \in 0..(x.ch - 1), i \in 0..(wr - 1) :            \* layout: (c,i) at channels*i+c
          SampleF(r.w, v, x.ch * i + c).vals = <<IF i < Len(ins[c + 1]) THEN ins[c + 1][i + 1] ELSE 0>>
    /\ rd.res = "ok" /\ rd.w = r.w
    /\ \A c \in 1..x.ch : rd.vals[c] = SubSeq(ins[c], 1, Min(Len(ins[c]), Length(x)))
    /\ rd.cnt = wr

StripedPanic == \A v \in Views(world), k \in 0..(MaxCh + 1) : LET x == world.views[v] IN
    LET ins == [c \in 1..k |-> <<1>>]
        r1 == WriteStripedF(world, v, ins)  r2 == ReadStripedF(world, v, [c \in 1..k |-> 1]) IN
    /\ (r1.res = "panic") <=> (k # x.ch)
    /\ (r2.res = "panic") <=> (k # x.ch)
    /\ r1.res = "panic" => r1.w = world
    /\ r2.w = world

(* ---- C05 / C15: conversions ------------------------------------------- *)
ConvertSem == \A sv, dv \in Views(world) :
    LET s == world.views[sv]  d == world.views[dv]  n == Min(s.len, d.len)
        r == ConvertF(world, sv, dv, Swap) IN
    /\ (r.res = "panic") <=> (s.ch # d.ch)
    /\ r.res = "panic" => r.w = world
    /\ r.res = "ok" =>
          /\ r.cnt = Min(Length(s), Length(d))
          /\ OnlyCellsChanged(world, r.w, d.a, (d.off + 1)..(d.off + n))
          /\ \A k \in 0..(n - 1) : CellAt(r.w, d, k) = ApplyMap(Swap, CellAt(world, s, k))

(* ---- C14: channel views ------------------------------------------------ *)
ChannelSem == \A v \in Views(world) : LET x == world.views[v] IN
    \A c \in 0..(x.ch - 1), i \in 0..(Length(x) - 1) :
    Pos(x, c, i) < x.len =>
    /\ ChanIndexF(world, v, c, i).cnt = x.ch * i + c
    /\ ChanSampleF(world, v, c, i).vals = <<ChanSeq(world, x, c)[i + 1]>>
    /\ \A val \in Vals : LET r == ChanSetF(world, v, c, i, val) IN
          /\ r.res = "ok"
          /\ OnlyCellsChanged(world, r.w, x.a, {x.off + x.ch * i + c + 1})
          /\ ChanSampleF(r.w, v, c, i).vals = <<val>>

(* ---- C20: empty / zero-channel views are inert -------------------------- *)
Inert == \A v \in Views(world) : LET x == world.views[v] IN
    (x.ch = 0 \/ x.cap = 0) =>
    /\ Length(x) = 0 /\ Capacity(x) = 0 /\ x.len = 0
    /\ \A in \in ConstSeqs(2) : WriteF(world, v, in).cnt = 0 /\ WriteF(world, v, in).w = world
    /\ ReadF(world, v, 2).cnt = 0 /\ ReadF(world, v, 2).vals = <<>>
    /\ AppendSampleF(world, v, 1).w = world
    /\ \A u \in Views(world) : LET y == world.views[u] IN
          /\ (y.ch = x.ch) => ConvertF(world, v, u, Swap).cnt = 0 /\ ConvertF(world, v, u, Swap).w = world
                              /\ ConvertF(world, u, v, Swap).cnt = 0 /\ ConvertF(world, u, v, Swap).w = world
          /\ (y.ch = x.ch /\ y.len = 0) =>
                LET r == AppendF(world, v, u, 0, <<>>) IN r.res = "ok" /\ r.w = world
    /\ x.ch = 0 => WriteStripedF(world, v, <<>>).cnt = 0 /\ ReadStripedF(world, v, <<>>).cnt = 0
ZeroLen == \A v \in Views(world) : LET x == world.views[v] IN
    x.len = 0 => /\ WriteF(world, v, <<1, 1>>).cnt = 0 /\ WriteF(world, v, <<1, 1>>).w = world
                 /\ ReadF(world, v, 2).cnt = 0
                 /\ \A u \in Views(world) : world.views[u].ch = x.ch =>
                        ConvertF(world, v, u, Swap).cnt = 0 /\ ConvertF(world, u, v, Swap).cnt = 0

(* ---- C12: reading is a function of storage; writes are seen exactly by covering views --- *)
Aliasing == \A v \in Views(world) : LET x == world.views[v] IN
    \A i \in 0..(x.len - 1) : LET r == SetSampleF(world, v, i, 1 - CellAt(world, x, i)) IN
    \A u \in Views(world) : LET y == world.views[u] IN
      \A p \in 0..(y.cap - 1) :
         (CellAt(r.w, y, p) # CellAt(world, y, p)) <=> (CellId(y, p) = CellId(x, i))
=============================================================================
