SPECIFICATION Spec
CONSTANTS
  Ch = 2
  ROFrames = 1
  WFrames = 1
  Readers = {1, 2}
  Writers = {3, 4}
  Hazard = FALSE
INVARIANTS
  RaceFree
  SeqEquivalent
  Confined
CHECK_DEADLOCK FALSE
