------------------------------- MODULE BigNat -------------------------------
(***************************************************************************)
(* Arbitrary-precision naturals, signed integers and dyadic rationals for  *)
(* TLC (whose integers are 32-bit).  A natural is a little-endian sequence *)
(* of limbs in base 2^15 without trailing zero limbs (zero is <<>>).       *)
(*   integer  Z == [neg |-> BOOLEAN, mag |-> natural]   (no negative zero) *)
(*   dyadic   D == [neg, mag, exp]  meaning  +-mag * 2^exp  (exp any int)  *)
(* Everything is exact.  Checked against Python integers by the self-test  *)
(* (BigNatTest.tla).                                                       *)
(***************************************************************************)
EXTENDS Integers, Sequences

B == 32768            \* 2^15: limb * limb < 2^31
LB == 15

RECURSIVE NNorm(_)
NNorm(s) == IF s = <<>> THEN <<>>
            ELSE IF s[Len(s)] = 0 THEN NNorm(SubSeq(s, 1, Len(s) - 1)) ELSE s

RECURSIVE NFromInt(_)
NFromInt(n) == IF n = 0 THEN <<>> ELSE <<n % B>> \o NFromInt(n \div B)

Limb(s, i) == IF i <= Len(s) THEN s[i] ELSE 0
MaxI(a, b) == IF a > b THEN a ELSE b

RECURSIVE NCmpFrom(_, _, _)
NCmpFrom(a, b, i) == IF i = 0 THEN 0
                     ELSE IF a[i] < b[i] THEN -1 ELSE IF a[i] > b[i] THEN 1 ELSE NCmpFrom(a, b, i - 1)
NCmp(a, b) == IF Len(a) < Len(b) THEN -1 ELSE IF Len(a) > Len(b) THEN 1 ELSE NCmpFrom(a, b, Len(a))
NLe(a, b) == NCmp(a, b) <= 0
NLt(a, b) == NCmp(a, b) < 0

RECURSIVE NAddFrom(_, _, _, _)
NAddFrom(a, b, i, c) ==
    IF i > MaxI(Len(a), Len(b)) THEN (IF c = 0 THEN <<>> ELSE <<c>>)
    ELSE LET t == Limb(a, i) + Limb(b, i) + c IN <<t % B>> \o NAddFrom(a, b, i + 1, t \div B)
NAdd(a, b) == NAddFrom(a, b, 1, 0)

RECURSIVE NSubFrom(_, _, _, _)
NSubFrom(a, b, i, br) ==                                   \* requires a >= b
    IF i > Len(a) THEN <<>>
    ELSE LET t == a[i] - Limb(b, i) - br IN
         IF t < 0 THEN <<t + B>> \o NSubFrom(a, b, i + 1, 1) ELSE <<t>> \o NSubFrom(a, b, i + 1, 0)
NSub(a, b) == NNorm(NSubFrom(a, b, 1, 0))

RECURSIVE NMulSmallFrom(_, _, _, _)
NMulSmallFrom(a, m, i, c) ==                               \* 0 <= m < B
    IF i > Len(a) THEN (IF c = 0 THEN <<>> ELSE <<c>>)
    ELSE LET t == a[i] * m + c IN <<t % B>> \o NMulSmallFrom(a, m, i + 1, t \div B)
NMulSmall(a, m) == IF m = 0 THEN <<>> ELSE NMulSmallFrom(a, m, 1, 0)

Zeros(n) == [i \in 1..n |-> 0]
NShlLimbs(a, n) == IF a = <<>> THEN <<>> ELSE Zeros(n) \o a

RECURSIVE Pow2Small(_)
Pow2Small(k) == IF k = 0 THEN 1 ELSE 2 * Pow2Small(k - 1)     \* k <= 30

NShl(a, k) == NShlLimbs(NMulSmall(a, Pow2Small(k % LB)), k \div LB)      \* a * 2^k
NPow2(k) == NShl(<<1>>, k)

RECURSIVE NMulFrom(_, _, _)
NMulFrom(a, b, i) == IF i > Len(b) THEN <<>>
                     ELSE NAdd(NShlLimbs(NMulSmall(a, b[i]), i - 1), NMulFrom(a, b, i + 1))
NMul(a, b) == IF Len(a) < Len(b) THEN NMulFrom(b, a, 1) ELSE NMulFrom(a, b, 1)

\* floor(a / 2^k)
NShr(a, k) ==
    LET ls == k \div LB  r == k % LB  p == Pow2Small(r)  q == Pow2Small(LB - r) IN
    IF ls >= Len(a) THEN <<>>
    ELSE LET t == SubSeq(a, ls + 1, Len(a)) IN
         NNorm([i \in 1..Len(t) |-> (t[i] \div p) + (Limb(t, i + 1) % p) * q])

\* number of bits of a (0 for zero)
RECURSIVE BitsSmall(_)
BitsSmall(n) == IF n = 0 THEN 0 ELSE 1 + BitsSmall(n \div 2)
NBits(a) == IF a = <<>> THEN 0 ELSE LB * (Len(a) - 1) + BitsSmall(a[Len(a)])

(* ---- signed integers ---------------------------------------------------- *)
Z(neg, mag) == [neg |-> (neg /\ mag # <<>>), mag |-> mag]
ZFromInt(n) == IF n < 0 THEN Z(TRUE, NFromInt(-n)) ELSE Z(FALSE, NFromInt(n))
ZNeg(x) == Z(~x.neg, x.mag)
ZCmp(x, y) == IF x.neg /\ ~y.neg THEN -1
              ELSE IF ~x.neg /\ y.neg THEN 1
              ELSE IF x.neg THEN NCmp(y.mag, x.mag) ELSE NCmp(x.mag, y.mag)
ZAdd(x, y) == IF x.neg = y.neg THEN Z(x.neg, NAdd(x.mag, y.mag))
              ELSE IF NCmp(x.mag, y.mag) >= 0 THEN Z(x.neg, NSub(x.mag, y.mag))
              ELSE Z(y.neg, NSub(y.mag, x.mag))
ZSub(x, y) == ZAdd(x, ZNeg(y))
ZMul(x, y) == Z(x.neg # y.neg, NMul(x.mag, y.mag))
ZShl(x, k) == Z(x.neg, NShl(x.mag, k))
ZLe(x, y) == ZCmp(x, y) <= 0
ZLt(x, y) == ZCmp(x, y) < 0
ZEq(x, y) == ZCmp(x, y) = 0
ZAbs(x) == Z(FALSE, x.mag)
ZPow2(k) == Z(FALSE, NPow2(k))
Z0 == Z(FALSE, <<>>)
Z1 == Z(FALSE, <<1>>)

(* ---- dyadic rationals  +-mag * 2^exp ------------------------------------ *)
D(neg, mag, exp) == [neg |-> (neg /\ mag # <<>>), mag |-> mag, exp |-> exp]
DFromZ(x) == D(x.neg, x.mag, 0)
DInt(x, e) == Z(x.neg, NShl(x.mag, x.exp - e))           \* x * 2^-e as an integer; requires e <= x.exp
MinI(a, b) == IF a < b THEN a ELSE b
DCmp(x, y) == LET e == MinI(x.exp, y.exp) IN ZCmp(DInt(x, e), DInt(y, e))
DAdd(x, y) == LET e == MinI(x.exp, y.exp)  s == ZAdd(DInt(x, e), DInt(y, e)) IN D(s.neg, s.mag, e)
DNeg(x) == D(~x.neg, x.mag, x.exp)
DSub(x, y) == DAdd(x, DNeg(y))
DMul(x, y) == D(x.neg # y.neg, NMul(x.mag, y.mag), x.exp + y.exp)
DShl(x, k) == D(x.neg, x.mag, x.exp + k)                 \* x * 2^k, k any integer
DAbs(x) == D(FALSE, x.mag, x.exp)
DLe(x, y) == DCmp(x, y) <= 0
DLt(x, y) == DCmp(x, y) < 0
DEq(x, y) == DCmp(x, y) = 0
DPow2(k) == D(FALSE, <<1>>, k)
D0 == D(FALSE, <<>>, 0)
D1 == D(FALSE, <<1>>, 0)
\* floor(log2 |x|) for x # 0
DLog2(x) == x.exp + NBits(x.mag) - 1

(* ---- JSON encodings used by the recorders --------------------------------- *)
\* integer: <<sign, limb0, limb1, ...>> with sign 1 = negative
ZOfJson(n) == Z(n[1] = 1, NNorm(SubSeq(n, 2, Len(n))))
\* float: [cls |-> "fin" | "inf" | "nan", n |-> integer mantissa (with sign), e |-> binary exponent]
DOfJson(f) == LET m == ZOfJson(f.n) IN D(m.neg, m.mag, f.e)
=============================================================================
