SPECIFICATION Spec
CONSTANTS
  MaxViews = 2
  MaxArrays = 2
  MaxCells = 4
  MaxCh = 2
  BDs = {16}
INVARIANTS
  TypeOK
  AllocSem
  SliceSem
  SliceCompose
  AppendSem
  AppendSampleSem
  WriteReadSem
  StripedSem
  StripedPanic
  ConvertSem
  ChannelSem
  Inert
  ZeroLen
  Aliasing
CHECK_DEADLOCK FALSE
