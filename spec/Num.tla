--------------------------------- MODULE Num ---------------------------------
(***************************************************************************)
(* Numeric envelopes of pipelined.dev/signal (C06-C09, C16, C17 and the    *)
(* value clause of C05), written once as relations Allowed(input, output)  *)
(* over exact arithmetic (BigNat: arbitrary-precision integers Z and       *)
(* dyadic rationals D).  They are literal transcriptions of the property   *)
(* statements; where a statement leaves freedom (either neighbouring       *)
(* integer, "within one step", float rounding) the relation is loose in    *)
(* exactly that way, so a legal refactoring is never rejected.             *)
(*                                                                         *)
(* A fixed-point format is [signed |-> BOOLEAN, d |-> depth in bits].      *)
(* Amplitude of a code: the code itself (signed) or code - 2^(d-1).        *)
(***************************************************************************)
EXTENDS BigNat

Fmt(signed, d) == [signed |-> signed, d |-> d]
Half(f)    == ZPow2(f.d - 1)                                   \* 2^(d-1)
Lowest(f)  == IF f.signed THEN ZNeg(Half(f)) ELSE Z0
Highest(f) == IF f.signed THEN ZSub(Half(f), Z1) ELSE ZSub(ZPow2(f.d), Z1)
ZeroCode(f) == IF f.signed THEN Z0 ELSE Half(f)
Amp(f, c)  == IF f.signed THEN c ELSE ZSub(c, Half(f))
InRange(f, c) == ZLe(Lowest(f), c) /\ ZLe(c, Highest(f))

(* ---- C07: requantisation accuracy ---------------------------------------- *)
\* narrowing by k bits: b is one of the two integers neighbouring a / 2^k
NarrowOK(a, b, k) == ZLt(ZShl(ZSub(b, Z1), k), a) /\ ZLt(a, ZShl(ZAdd(b, Z1), k))
QuantAccurate(S, Dst, x, y) ==
    LET a == Amp(S, x)  b == Amp(Dst, y) IN
    IF S.d > Dst.d THEN NarrowOK(a, b, S.d - Dst.d)
    ELSE IF S.d = Dst.d THEN ZEq(a, b)
    ELSE TRUE                                                   \* widening: judged by the round trip
(* ---- C06: reference levels ------------------------------------------------- *)
QuantLevels(S, Dst, x, y) ==
    /\ ZEq(x, Lowest(S))  => ZEq(y, Lowest(Dst))
    /\ ZEq(x, Highest(S)) => ZEq(y, Highest(Dst))
    /\ ZEq(x, ZeroCode(S)) => ZEq(y, ZeroCode(Dst))

(* ---- the implementation-shaped reference requantisation (what the Go functions compute; the same formula is   *)
(* model-checked in MCNum.tla and checked for all values with Apalache in QuantApa.tla).  NumTrace counts on how  *)
(* many recorded points the code AGREES with it -- informational: the verdict is always the envelope above.       *)
ZShrTrunc(a, k) == Z(a.neg, NShr(a.mag, k))
ZShrFloor(a, k) == IF a.neg THEN Z(TRUE, NShr(NAdd(a.mag, NSub(NPow2(k), <<1>>)), k)) ELSE Z(FALSE, NShr(a.mag, k))
RefQuantZ(S, Dst, x) ==
    LET a == Amp(S, x)
        b == IF S.d >= Dst.d
             THEN (IF S.signed THEN ZShrTrunc(a, S.d - Dst.d) ELSE ZShrFloor(a, S.d - Dst.d))
             ELSE IF ZLt(Z0, a) THEN ZSub(ZShl(ZAdd(a, Z1), Dst.d - S.d), Z1) ELSE ZShl(a, Dst.d - S.d) IN
    IF Dst.signed THEN b ELSE ZAdd(b, Half(Dst))

(* ---- C08: float -> fixed ------------------------------------------------------ *)
FullScale(Dst, neg) == IF neg THEN Half(Dst) ELSE ZSub(Half(Dst), Z1)
\* |b - f*FS| <= 1 for -1 < f < 1   (f dyadic)
FloatFixAccurate(Dst, f, y) ==
    LET b == DFromZ(Amp(Dst, y))
        t == DMul(f, DFromZ(FullScale(Dst, f.neg))) IN
    DLe(DAbs(DSub(b, t)), D1)

(* ---- C09: fixed -> float ------------------------------------------------------ *)
\* |g - a / 2^(s-1)| <= 2^-(s-1) + 2^(2-p)    <=>   |g * 2^(s-1) - a| <= 1 + 2^(s+1-p)
FixFloatAccurate(S, x, g, p) ==
    LET a == DFromZ(Amp(S, x)) IN
    DLe(DAbs(DSub(DShl(g, S.d - 1), a)), DAdd(D1, DPow2(S.d + 1 - p)))

(* ---- C05: float -> float -------------------------------------------------------- *)
\* exponent of the float32 unit in the last place around x (x # 0): max(floor(log2|x|), -126) - 23
Ulp32Exp(x) == MaxI(DLog2(x), -126) - 23
\* overflow threshold of float32 rounding: 2^128 - 2^103
F32Overflow == DSub(DPow2(128), DPow2(103))
\* y is a float32 nearest to x (ties either way); x, y finite dyadics
NearestF32(x, y) ==
    IF x.mag = <<>> THEN y.mag = <<>>
    ELSE DLe(DShl(DAbs(DSub(y, x)), 1), DPow2(Ulp32Exp(x)))   \* |y-x| <= ulp/2

(* ---- C16: bit-depth arithmetic ---------------------------------------------------- *)
MaxS(b) == IF b = 0 THEN Z0 ELSE ZSub(ZPow2(b - 1), Z1)     \* depth 0 (documented: all bounds are zero)
MinS(b) == IF b = 0 THEN Z0 ELSE ZNeg(ZPow2(b - 1))
MaxU(b) == IF b = 0 THEN Z0 ELSE ZSub(ZPow2(b), Z1)
ClipTo(lo, hi, x) == IF ZLt(x, lo) THEN lo ELSE IF ZLt(hi, x) THEN hi ELSE x

(* ---- C17: frequency ------------------------------------------------------------------ *)
Giga == Z(FALSE, NFromInt(1000000000))
\* |d*f - n*10^9| <= f*(1/2 + 2^-51*(|d|+1))       (d ns for n events at f Hz)
DurationOK(f, n, d) ==
    LET lhs == DAbs(DSub(DMul(DFromZ(d), f), DFromZ(ZMul(n, Giga))))
        slack == DAdd(DPow2(-1), DShl(DFromZ(ZAdd(ZAbs(d), Z1)), -51)) IN
    DLe(lhs, DMul(f, slack))
\* |n*10^9 - f*d| <= 10^9*(1/2 + 2^-51*(|n|+1))
EventsOK(f, d, n) ==
    LET lhs == DAbs(DSub(DFromZ(ZMul(n, Giga)), DMul(f, DFromZ(d))))
        slack == DAdd(DPow2(-1), DShl(DFromZ(ZAdd(ZAbs(n), Z1)), -51)) IN
    DLe(lhs, DMul(DFromZ(Giga), slack))
=============================================================================
