SPECIFICATION Spec
INVARIANT Done
POSTCONDITION AllConsumed
CHECK_DEADLOCK FALSE
