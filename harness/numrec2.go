package harness

import (
	"math"
	"math/rand"
	"sort"
	"time"
	"unsafe"

	"golang.org/x/exp/constraints"
	"pipelined.dev/signal"
)

// floatValues: boundary-dense float64 inputs (sorted, NaN excluded).
func floatValues(rng *rand.Rand, nrand int) []float64 {
	set := map[uint64]float64{}
	add := func(f float64) {
		if !math.IsNaN(f) {
			if f == 0 {
				f = 0 // fold -0 into +0 (they compare equal; the scan needs strictly increasing inputs)
			}
			set[math.Float64bits(f)] = f
		}
	}
	around := func(f float64) {
		add(f)
		up, dn := f, f
		for i := 0; i < 3; i++ {
			up = math.Nextafter(up, math.Inf(1))
			dn = math.Nextafter(dn, math.Inf(-1))
			add(up)
			add(dn)
		}
	}
	for k := -70; k <= 70; k++ {
		around(math.Ldexp(1, k))
		around(-math.Ldexp(1, k))
		around(math.Ldexp(1.5, k))
		around(-math.Ldexp(1.5, k))
	}
	around(0)
	for _, m := range []float64{255, 256, 257, 65535, 65536, 65537, 1 << 31, 1<<31 - 1, 1 << 32, 1<<32 - 1, 1 << 63, 1 << 64, 127, 128, 32767, 32768} {
		for _, d := range []float64{-1, -0.5, 0, 0.5, 1} {
			around(m + d)
			around(-(m + d))
			around(2*m + d)
			around(3*m + d)
			around(-(2*m + d))
		}
	}
	add(math.Inf(1))
	add(math.Inf(-1))
	add(math.MaxFloat64)
	add(-math.MaxFloat64)
	add(math.SmallestNonzeroFloat64)
	add(-math.SmallestNonzeroFloat64)
	for i := 0; i < nrand; i++ {
		add(rng.Float64()*2 - 1)
		add(math.Ldexp(rng.Float64()*2-1, rng.Intn(140)-70))
		add((rng.Float64()*2 - 1) * 1.0001)
		// near quantisation steps of common depths
		d := []int{8, 16, 32}[rng.Intn(3)]
		fs := math.Ldexp(1, d-1)
		k := float64(rng.Int63n(1 << uint(d-1)))
		add(k / fs)
		add(-k / fs)
		add(k / (fs - 1))
		add(math.Nextafter(k/(fs-1), 2))
		add(math.Nextafter(k/fs, -2))
	}
	out := make([]float64, 0, len(set))
	for _, f := range set {
		out = append(out, f)
	}
	sort.Float64s(out)
	return out
}

func floatsAs[S constraints.Float](vals []float64) []S {
	out := make([]S, 0, len(vals))
	var last S
	for i, v := range vals {
		s := S(v)
		if i > 0 && s == last {
			continue
		}
		out = append(out, s)
		last = s
	}
	return out
}

func floatBits[S constraints.Float]() int { return int(unsafe.Sizeof(S(0))) * 8 }

// floatFixSweep: C08 for one instantiation.
func floatFixSweep[S constraints.Float, D constraints.Integer](w *numWriter, rng *rand.Rand, fn, sty, dty string,
	conv func(*signal.Buffer[S], *signal.Buffer[D]) int, nrand int, exhaustive bool) {
	w.start(&NEvent{Fam: "floatfix", Fn: fn, STy: sty, DTy: dty, Sd: floatBits[S](), Ds: b2i(isSigned[D]()), Dd: bitsOf[D]()})
	if exhaustive && floatBits[S]() == 32 && bitsOf[D]() <= 16 {
		floatFixExhaustive32(w, conv)
		w.start(&NEvent{Fam: "floatfix", Fn: fn, STy: sty, DTy: dty, Sd: floatBits[S](), Ds: b2i(isSigned[D]()), Dd: bitsOf[D]()})
	}
	xs := floatsAs[S](floatValues(rng, nrand))
	ys := convertSlice(conv, xs)
	for i := range xs {
		w.emit(&NEvent{Op: "P", F: floatJ(float64(xs[i])), Y: numOfInt(ys[i])})
	}
	// the same inputs in random order through small multi-channel buffers (quiet and loud samples mixed)
	w.start(&NEvent{Fam: "floatfix", Fn: fn, STy: sty, DTy: dty, Sd: floatBits[S](), Ds: b2i(isSigned[D]()), Dd: bitsOf[D](), Uo: 1})
	type pt struct {
		x S
		y D
	}
	var pts []pt
	shuffledBlocks(rng, conv, xs, 600, func(x S, y D) {
		if x == x {
			pts = append(pts, pt{x, y})
		}
		w.emit(&NEvent{Op: "P", F: floatJ(float64(x)), Y: numOfInt(y)})
	})
	// the same points as one ordered scan (results from different positions of different small blocks)
	sort.Slice(pts, func(i, j int) bool {
		if pts[i].x != pts[j].x {
			return pts[i].x < pts[j].x
		}
		return ord(pts[i].y) < ord(pts[j].y)
	})
	w.start(&NEvent{Fam: "floatfix", Fn: fn, STy: sty, DTy: dty, Sd: floatBits[S](), Ds: b2i(isSigned[D]()), Dd: bitsOf[D]()})
	for i, p := range pts {
		if i > 0 && p == pts[i-1] {
			continue
		}
		w.emit(&NEvent{Op: "P", F: floatJ(float64(p.x)), Y: numOfInt(p.y)})
	}
	// parallel with the other instantiations: a block of 1100 samples converted 120 times
	w.start(&NEvent{Fam: "floatfix", Fn: fn, STy: sty, DTy: dty, Sd: floatBits[S](), Ds: b2i(isSigned[D]()), Dd: bitsOf[D](), Uo: 1})
	blk := make([]S, 1100)
	for i := range blk {
		blk[i] = xs[rng.Intn(len(xs))]
	}
	repeatDistinct(conv, blk, 300, func(x S, y D) {
		if x == x {
			w.emit(&NEvent{Op: "P", F: floatJ(float64(x)), Y: numOfInt(y)})
		}
	})
}

// floatFixChained: the source of the float -> fixed conversion is the very buffer object a fixed -> float conversion
// of the library produced (full-scale codes give exactly +-1.0), and a slice of it into which out-of-range samples
// are then written through the parent; unordered scan.
func floatFixChained[S constraints.Float, D constraints.Integer](w *numWriter, rng *rand.Rand, fn, sty, dty string,
	conv func(*signal.Buffer[S], *signal.Buffer[D]) int, fromS func(*signal.Buffer[int64], *signal.Buffer[S]) int, fromU func(*signal.Buffer[uint16], *signal.Buffer[S]) int) {
	w.start(&NEvent{Fam: "floatfix", Fn: fn, STy: sty, DTy: dty, Sd: floatBits[S](), Ds: b2i(isSigned[D]()), Dd: bitsOf[D](), Uo: 1})
	codes := []int64{math.MaxInt64, math.MinInt64, 0, 1, -1, math.MaxInt64 / 2, math.MinInt64 / 2, math.MaxInt64 - 1, math.MinInt64 + 1}
	for i := 0; i < 7; i++ {
		codes = append(codes, int64(rng.Uint64()))
	}
	n := len(codes)
	a := signal.Alloc[int64](signal.Allocator{Channels: 1, Length: n, Capacity: n})
	for i, c := range codes {
		a.SetSample(i, c)
	}
	f := signal.Alloc[S](signal.Allocator{Channels: 1, Length: n, Capacity: n})
	fromS(a, f)
	emit := func(src *signal.Buffer[S]) {
		dst := signal.Alloc[D](signal.Allocator{Channels: 1, Length: src.Len(), Capacity: src.Len()})
		conv(src, dst)
		for i := 0; i < src.Len(); i++ {
			w.emit(&NEvent{Op: "P", F: floatJ(float64(src.Sample(i))), Y: numOfInt(dst.Sample(i))})
		}
	}
	emit(f)
	view := f.Slice(0, n) // shares storage with f
	f.SetSample(2, S(1.5))
	f.SetSample(3, S(-3))
	f.SetSample(4, S(math.Inf(1)))
	emit(view)
	u := signal.Alloc[uint16](signal.Allocator{Channels: 1, Length: 4, Capacity: 4})
	for i, c := range []uint16{65535, 0, 32768, 40000} {
		u.SetSample(i, c)
	}
	g := signal.Alloc[S](signal.Allocator{Channels: 1, Length: 4, Capacity: 4})
	fromU(u, g)
	emit(g)
}

// fixFloatSweep: C09 for one instantiation; back is the matching float -> fixed function.
func fixFloatSweep[S constraints.Integer, D constraints.Float](w *numWriter, rng *rand.Rand, fn, sty, dty string,
	conv func(*signal.Buffer[S], *signal.Buffer[D]) int, back func(*signal.Buffer[D], *signal.Buffer[S]) int, nrand int, exhaustive16 bool) {
	p := 53
	if floatBits[D]() == 32 {
		p = 24
	}
	sd := bitsOf[S]()
	w.start(&NEvent{Fam: "fixfloat", Fn: fn, STy: sty, DTy: dty, Ss: b2i(isSigned[S]()), Sd: sd, Dd: floatBits[D](), P: p})
	var xs []S
	if sd == 16 && exhaustive16 {
		xs = make([]S, 0, 65536)
		lo := S(0)
		if isSigned[S]() {
			m := int64(-32768)
			lo = S(m)
		}
		for i := 0; i < 65536; i++ {
			xs = append(xs, lo+S(i))
		}
	} else {
		xs = intValues[S](rng, nrand)
	}
	gs := convertSlice(conv, xs)
	zs := convertSlice(back, gs)
	for i := range xs {
		w.emit(&NEvent{Op: "P", X: numOfInt(xs[i]), G: floatJ(float64(gs[i]))})
		w.emit(&NEvent{Op: "RT", X: numOfInt(xs[i]), G: floatJ(float64(gs[i])), Z: numOfInt(zs[i])})
	}
	w.start(&NEvent{Fam: "fixfloat", Fn: fn, STy: sty, DTy: dty, Ss: b2i(isSigned[S]()), Sd: sd, Dd: floatBits[D](), P: p, Uo: 1})
	type pt struct {
		x S
		y D
	}
	var pts []pt
	shuffledBlocks(rng, conv, xs, 300, func(x S, y D) {
		pts = append(pts, pt{x, y})
		w.emit(&NEvent{Op: "P", X: numOfInt(x), G: floatJ(float64(y))})
	})
	// the same points as one ordered scan (results from different positions of different small blocks)
	sort.Slice(pts, func(i, j int) bool {
		if pts[i].x != pts[j].x {
			return ord(pts[i].x) < ord(pts[j].x)
		}
		return pts[i].y < pts[j].y
	})
	w.start(&NEvent{Fam: "fixfloat", Fn: fn, STy: sty, DTy: dty, Ss: b2i(isSigned[S]()), Sd: sd, Dd: floatBits[D](), P: p})
	for i, q := range pts {
		if i > 0 && q == pts[i-1] {
			continue
		}
		w.emit(&NEvent{Op: "P", X: numOfInt(q.x), G: floatJ(float64(q.y))})
	}
	// all instantiations of the family run in parallel goroutines: a block of 1100 samples converted 120 times while
	// the other formats are being converted next door (shared scratch or memoised constants would be torn)
	w.start(&NEvent{Fam: "fixfloat", Fn: fn, STy: sty, DTy: dty, Ss: b2i(isSigned[S]()), Sd: sd, Dd: floatBits[D](), P: p, Uo: 1})
	{
		blk := make([]S, 1100)
		for i := range blk {
			blk[i] = xs[rng.Intn(len(xs))]
		}
		repeatDistinct(conv, blk, 300, func(x S, y D) { w.emit(&NEvent{Op: "P", X: numOfInt(x), G: floatJ(float64(y))}) })
	}
	if exhaustive16 && sd == 32 && p == 53 { // thorough tier (through float64; float32 cannot hold 32-bit codes and nothing is claimed): the round trip of EVERY 32-bit code, as runs of constant z - x
		fixFloatRoundTrips32(w, conv, back)
	}
}

// fixFloatAfterOther: the SAME source buffer (and a slice of it) is first converted into the other floating-point
// type and only then into D: the result for a sample may depend on the sample and the two formats only, not on what
// the source buffer was used for before (unordered scan).
func fixFloatAfterOther[S constraints.Integer, D, O constraints.Float](w *numWriter, rng *rand.Rand, fn, sty, dty string,
	conv func(*signal.Buffer[S], *signal.Buffer[D]) int, other func(*signal.Buffer[S], *signal.Buffer[O]) int, nrand int) {
	p := 53
	if floatBits[D]() == 32 {
		p = 24
	}
	xs := intValues[S](rng, nrand/4)
	if len(xs) > 400 {
		idx := rng.Perm(len(xs))[:400]
		ys := make([]S, 0, 400)
		for _, i := range idx {
			ys = append(ys, xs[i])
		}
		xs = ys
	}
	n := len(xs)
	src := signal.Alloc[S](signal.Allocator{Channels: 1, Length: n, Capacity: n})
	for i, v := range xs {
		src.SetSample(i, v)
	}
	tmp := signal.Alloc[O](signal.Allocator{Channels: 1, Length: n, Capacity: n})
	other(src, tmp) // first use of this source buffer: into the other float type
	w.start(&NEvent{Fam: "fixfloat", Fn: fn, STy: sty, DTy: dty, Ss: b2i(isSigned[S]()), Sd: bitsOf[S](), Dd: floatBits[D](), P: p, Uo: 1})
	for _, view := range []*signal.Buffer[S]{src, src.Slice(n/3, n)} {
		dst := signal.Alloc[D](signal.Allocator{Channels: 1, Length: view.Len(), Capacity: view.Len()})
		conv(view, dst)
		for i := 0; i < view.Len(); i++ {
			w.emit(&NEvent{Op: "P", X: numOfInt(view.Sample(i)), G: floatJ(float64(dst.Sample(i)))})
		}
	}
}

// fixFloatRoundTrips32 sweeps all 2^32 codes of a 32-bit source through conv and back.
func fixFloatRoundTrips32[S constraints.Integer, D constraints.Float](w *numWriter, conv func(*signal.Buffer[S], *signal.Buffer[D]) int, back func(*signal.Buffer[D], *signal.Buffer[S]) int) {
	var lo S
	if isSigned[S]() {
		m := int64(-1) << 31
		lo = S(m)
	}
	const chunk = 1 << 18
	in := make([]S, chunk)
	have := false
	var x0, x1 S
	var d int64
	var neg bool
	segs := 0
	flush := func() {
		if !have {
			return
		}
		segs++
		if segs <= w.maxSegs {
			k := numOfU64(uint64(d))
			if neg {
				k[0] = 1
			}
			w.emit(&NEvent{Op: "RTSeg", X: numOfInt(x0), X1: numOfInt(x1), K: k})
		}
		have = false
	}
	for base := uint64(0); base < 1<<32; base += chunk {
		for i := range in {
			in[i] = lo + S(base+uint64(i))
		}
		zs := convertSlice(back, convertSlice(conv, in))
		for i, x := range in {
			oz, ox := ord(zs[i]), ord(x)
			var dd int64
			ng := false
			if oz >= ox {
				dd = int64(oz - ox)
			} else {
				dd, ng = int64(ox-oz), true
			}
			if have && (dd != d || ng != neg) {
				flush()
			}
			if !have {
				x0, d, neg, have = x, dd, ng, true
			}
			x1 = x
		}
	}
	flush()
	if segs > w.maxSegs {
		w.Capped++
	}
}

// floatFixExhaustive32 visits EVERY non-NaN float32 bit pattern in increasing value order: one Clip record
// (with the smallest and largest output seen) per clipped region, maximal runs of equal output inside (-1,1).
func floatFixExhaustive32[S constraints.Float, D constraints.Integer](w *numWriter, conv func(*signal.Buffer[S], *signal.Buffer[D]) int) {
	const chunk = 1 << 20
	in := make([]S, 0, chunk)
	// region walker: calls visit(bits) for bits from a to b (inclusive) stepping by dir
	run := func(a, b uint32, dir int, visit func(f float32, y D)) {
		cur := int64(a)
		end := int64(b)
		for {
			in = in[:0]
			bitsAt := make([]uint32, 0, chunk)
			for len(in) < chunk {
				in = append(in, S(math.Float32frombits(uint32(cur))))
				bitsAt = append(bitsAt, uint32(cur))
				if cur == end {
					break
				}
				cur += int64(dir)
			}
			ys := convertSlice(conv, in)
			for i := range ys {
				visit(math.Float32frombits(bitsAt[i]), ys[i])
			}
			if bitsAt[len(bitsAt)-1] == b {
				return
			}
		}
	}
	clip := func(a, b uint32, dir int) {
		first := true
		var ymin, ymax D
		var f0, f1 float32
		run(a, b, dir, func(f float32, y D) {
			if first {
				ymin, ymax, f0, first = y, y, f, false
			}
			if y < ymin {
				ymin = y
			}
			if y > ymax {
				ymax = y
			}
			f1 = f
		})
		w.emit(&NEvent{Op: "Clip", F: floatJ(float64(f0)), F1: floatJ(float64(f1)), Y: numOfInt(ymin), Z: numOfInt(ymax)})
	}
	segs := 0
	inner := func(a, b uint32, dir int) {
		have := false
		var f0, f1 float32
		var y0 D
		flush := func() {
			if have {
				segs++
				if segs <= w.maxSegs {
					w.emit(&NEvent{Op: "Seg", F: floatJ(float64(f0)), F1: floatJ(float64(f1)), Y: numOfInt(y0)})
				}
			}
			have = false
		}
		run(a, b, dir, func(f float32, y D) {
			if have && y != y0 {
				flush()
			}
			if !have {
				f0, y0, have = f, y, true
			}
			f1 = f
		})
		flush()
	}
	clip(0xFF800000, 0xBF800000, -1)  // -Inf .. -1
	inner(0xBF7FFFFF, 0x80000001, -1) // (-1, 0)
	ys := convertSlice(conv, []S{0})
	w.emit(&NEvent{Op: "P", F: floatJ(0), Y: numOfInt(ys[0])})
	inner(0x00000001, 0x3F7FFFFF, 1) // (0, 1)
	clip(0x3F800000, 0x7F800000, 1)  // 1 .. +Inf
	if segs > w.maxSegs {
		w.Capped++
	}
}

var f32bits = []uint32{0x7F7FFFFF, 0x00000001, 0x00800000, 0x3F800000, 0x3F7FFFFF, 0x3F800001, 0x7F800000, 0xFF800000, 0x7FC00000, 0x80000000, 0}

// floatFloatSweep: value clause of C05 for one instantiation.
func floatFloatSweep[S, D constraints.Float](w *numWriter, rng *rand.Rand, sty, dty string, conv func(*signal.Buffer[S], *signal.Buffer[D]) int, nrand int) {
	w.start(&NEvent{Fam: "floatfloat", Fn: "FloatAsFloat", STy: sty, DTy: dty, Sd: floatBits[S](), Dd: floatBits[D]()})
	vals := floatValues(rng, nrand)
	vals = append(vals, math.NaN(), math.Float64frombits(0x7FF8000000000000), 3.4028235677973366e38, 3.4028235e38, 3.5e38, 1e39, -1e39,
		math.Ldexp(1, 128), math.Ldexp(1, 127), 3.4028234663852886e38, 3.4028235677973362e38, 3.402823567797337e38, math.Ldexp(1, -149), math.Ldexp(1, -150), math.Ldexp(1.5, -150), 1e-46, -1e-40)
	for _, b := range f32bits {
		vals = append(vals, float64(math.Float32frombits(b)))
	}
	for i := 0; i < nrand; i++ {
		vals = append(vals, math.Float64frombits(rng.Uint64()), float64(math.Float32frombits(rng.Uint32())))
		// halfway cases between adjacent float32 values
		a := math.Float32frombits(rng.Uint32() & 0x7F7FFFFF)
		b := math.Nextafter32(a, float32(math.Inf(1)))
		vals = append(vals, (float64(a)+float64(b))/2, math.Nextafter((float64(a)+float64(b))/2, 0))
	}
	xs := make([]S, len(vals))
	for i, v := range vals {
		xs[i] = S(v)
	}
	ys := convertSlice(conv, xs)
	for i := range xs {
		w.emit(&NEvent{Op: "P", F: floatJ(float64(xs[i])), G: floatJ(float64(ys[i]))})
	}
}

// ---- C16 --------------------------------------------------------------------------------------------
// depthBurst calls the bit-depth functions for every depth as fast as possible (no allocation or I/O in between)
// and returns the results as events; goroutine g starts with a different HIGH depth, so that the very first calls of
// the process hit different, late entries of any table that is being built.
type burstRes struct {
	b          int
	maxS, minS int64
	maxU       uint64
	cs, cs2    int64
	cu, cu2    uint64
}

func depthBurst(g int, rs []burstRes) []*NEvent {
	for k := 0; k < 64; k++ {
		b := 1 + ((63-g*3-k)%64+64)%64 // every depth 1..64 once, starting point staggered per goroutine
		bd := signal.BitDepth(b)
		r := burstRes{b: b}
		r.maxS, r.minS, r.maxU = bd.MaxSignedValue(), bd.MinSignedValue(), bd.MaxUnsignedValue()
		r.cs = bd.SignedValue(math.MinInt64 + 5)
		r.cs2 = bd.SignedValue(r.cs)
		r.cu = bd.UnsignedValue(math.MaxUint64 - 5)
		r.cu2 = bd.UnsignedValue(r.cu)
		rs = append(rs, r)
	}
	var out []*NEvent
	for _, r := range rs {
		out = append(out, &NEvent{Op: "MaxS", B: r.b, Y: numOfI64(r.maxS)}, &NEvent{Op: "MinS", B: r.b, Y: numOfI64(r.minS)}, &NEvent{Op: "MaxU", B: r.b, Y: numOfU64(r.maxU)},
			&NEvent{Op: "ClipS", B: r.b, X: numOfI64(math.MinInt64 + 5), Y: numOfI64(r.cs), Z: numOfI64(r.cs2)},
			&NEvent{Op: "ClipU", B: r.b, X: numOfU64(math.MaxUint64 - 5), Y: numOfU64(r.cu), Z: numOfU64(r.cu2)})
	}
	return out
}

// depthSweepPart records the depths b with b % of == part (and the Scale table when withScale).
func depthSweepPart(ws []*numWriter, rng *rand.Rand, nrand int, full bool, part, of int, withScale bool) {
	for b := 0; b <= 64; b++ { // depth 0 (all bounds zero) is outside C16's domain; recorded and compared under its own class
		if b%of != part {
			continue
		}
		w := ws[0]
		w.start(&NEvent{Fam: "depth", Fn: "BitDepth", B: b})
		bd := signal.BitDepth(b)
		w.emit(&NEvent{Op: "MaxS", B: b, Y: numOfI64(bd.MaxSignedValue())})
		w.emit(&NEvent{Op: "MinS", B: b, Y: numOfI64(bd.MinSignedValue())})
		w.emit(&NEvent{Op: "MaxU", B: b, Y: numOfU64(bd.MaxUnsignedValue())})
		si := intValues[int64](rng, nrand)
		if !full && b > 0 {
			si = depthValuesS(rng, b, nrand)
		}
		for _, x := range si {
			y := bd.SignedValue(x)
			w.emit(&NEvent{Op: "ClipS", B: b, X: numOfI64(x), Y: numOfI64(y), Z: numOfI64(bd.SignedValue(y))})
		}
		// the two clipping functions alternate (unsigned first) on a few values of this depth: a result may depend on
		// the depth and the value only, not on which function was called before
		if b > 0 {
			alt := depthValuesS(rng, b, 2)
			for i := 0; i < len(alt); i += 1 + len(alt)/12 {
				u := uint64(alt[i])
				yu := bd.UnsignedValue(u)
				w.emit(&NEvent{Op: "ClipU", B: b, X: numOfU64(u), Y: numOfU64(yu), Z: numOfU64(bd.UnsignedValue(yu))})
				ys := bd.SignedValue(alt[i])
				w.emit(&NEvent{Op: "ClipS", B: b, X: numOfI64(alt[i]), Y: numOfI64(ys), Z: numOfI64(bd.SignedValue(ys))})
			}
		}
		ui := intValues[uint64](rng, nrand)
		if !full && b > 0 {
			ui = depthValuesU(rng, b, nrand)
		}
		for _, x := range ui {
			y := bd.UnsignedValue(x)
			w.emit(&NEvent{Op: "ClipU", B: b, X: numOfU64(x), Y: numOfU64(y), Z: numOfU64(bd.UnsignedValue(y))})
		}
	}
	if withScale {
		w := ws[0]
		w.start(&NEvent{Fam: "depth", Fn: "Scale"})
		scaleAll(w)
	}
}

func scaleOne[T constraints.Integer](w *numWriter, ty string) {
	for h := 1; h <= 64; h++ {
		for l := 1; l <= h; l++ {
			y := signal.Scale[T](signal.BitDepth(h), signal.BitDepth(l))
			w.emit(&NEvent{Op: "Scale", H: h, L: l, STy: ty, Sd: bitsOf[T](), Ss: b2i(isSigned[T]()), Y: numOfInt(y)})
		}
	}
}

func scaleAll(w *numWriter) {
	scaleOne[int8](w, "int8")
	scaleOne[int16](w, "int16")
	scaleOne[int32](w, "int32")
	scaleOne[int64](w, "int64")
	scaleOne[int](w, "int")
	scaleOne[uint8](w, "uint8")
	scaleOne[uint16](w, "uint16")
	scaleOne[uint32](w, "uint32")
	scaleOne[uint64](w, "uint64")
	scaleOne[uint](w, "uint")
	scaleOne[uintptr](w, "uintptr")
}

func durationOf(d int64) time.Duration { return time.Duration(d) }

// ---- C17 --------------------------------------------------------------------------------------------
var audioRates = []float64{8000, 11025, 16000, 22050, 32000, 44100, 48000, 88200, 96000, 176400, 192000, 352800, 384000, 705600, 768000, 2822400, 5644800}

func freqRates(rng *rand.Rand, nrates int) []float64 {
	rates := append([]float64{}, audioRates...)
	for i := 0; i < nrates; i++ {
		rates = append(rates, float64(1+rng.Intn(1000000)))
	}
	for i := 0; i < nrates; i++ { // integer rates whose period 10^9/f is close to a whole number of nanoseconds
		p := 1000 + rng.Intn(1000000)
		rates = append(rates, math.Round(1e9/float64(p)))
	}
	rates = append(rates, nearIntegerPeriods(24)...)
	rates = append(rates, 1e9/1024, 1e6-1)
	for k := 1; k <= 22; k++ { // powers of two (a shift instead of a division), below and above 1 MHz
		if k >= 9 || k%3 == 0 {
			rates = append(rates, float64(int(1)<<uint(k)))
		}
	}
	return append(rates, 1, 2, 3, 7, 1000000, 999999, 44100.5, 0.5, 1.0/3, 47999.99, 12345.678, 29.97, 59.94, 1e6+0.5, 44100.4, 2.6, 48000/1.001)
}

// nearIntegerPeriods: the k integer rates in 1..10^6 whose period 10^9/f is closest to, but not equal to, a whole
// number of nanoseconds (where a shortcut through an integer period would silently lose the fraction).
func nearIntegerPeriods(k int) []float64 {
	type cand struct {
		f float64
		d float64
	}
	var best []cand
	for f := 1; f <= 1000000; f++ {
		if 1000000000%f == 0 {
			continue
		}
		p := 1e9 / float64(f)
		d := math.Abs(p - math.Round(p))
		if len(best) < k || d < best[len(best)-1].d {
			best = append(best, cand{float64(f), d})
			sort.Slice(best, func(i, j int) bool { return best[i].d < best[j].d })
			if len(best) > k {
				best = best[:k]
			}
		}
	}
	out := make([]float64, len(best))
	for i, c := range best {
		out[i] = c.f
	}
	return out
}

func freqSweep(w *numWriter, rng *rand.Rand, rates []float64, ncounts int) {
	for _, r := range rates {
		f := signal.Frequency(r)
		w.start(&NEvent{Fam: "freq", Fn: "Frequency", F: floatJ(r)})
		// event counts: 0.., dense near rounding ties of the nanosecond, up to 24 h
		set := map[int]struct{}{0: {}, 1: {}, 2: {}, 3: {}}
		maxN := int(math.Min(r*86400, 4e15))
		for i := 0; i < ncounts; i++ {
			set[rng.Intn(maxN+1)] = struct{}{}
			k := float64(rng.Intn(2000000000))
			n := int((k + 0.5) * r / 1e9)
			for d := -2; d <= 2; d++ {
				if n+d >= 0 {
					set[n+d] = struct{}{}
				}
			}
		}
		// integer-overflow and float-precision boundaries of n*10^9 (2^63, 2^63-f/2, 2^53)
		for _, b := range []float64{math.MaxInt64 / 1e9, (math.MaxInt64 - r/2) / 1e9, float64(1<<53) / 1e9, float64(1 << 53), float64(1<<53) / r} {
			for d := -3; d <= 3; d++ {
				if v := int(b) + d; v >= 0 && v <= maxN {
					set[v] = struct{}{}
				}
			}
		}
		set[maxN] = struct{}{}
		if maxN > 0 {
			set[maxN-1] = struct{}{}
		}
		ns := make([]int, 0, len(set))
		for n := range set {
			ns = append(ns, n)
		}
		sort.Ints(ns)
		for _, n := range ns {
			d := f.Duration(n)
			w.emit(&NEvent{Op: "Dur", F: floatJ(r), X: numOfI64(int64(n)), Y: numOfI64(int64(d))})
			w.emit(&NEvent{Op: "FRT", F: floatJ(r), X: numOfI64(int64(n)), Y: numOfI64(int64(d)), Z: numOfI64(int64(f.Events(d)))})
		}
		// durations 0..24 h, dense near half-event ties
		dset := map[int64]struct{}{0: {}, 1: {}, int64(24 * time.Hour): {}, int64(time.Second): {}}
		for k := 0; k < 4; k++ { // the first rounding ties (half an event, one and a half, ...) and one period
			for e := int64(-2); e <= 2; e++ {
				if v := int64((float64(k)+0.5)/r*1e9) + e; v >= 0 && v <= int64(24*time.Hour) {
					dset[v] = struct{}{}
				}
				if v := int64(float64(k+1)/r*1e9) + e; v >= 0 && v <= int64(24*time.Hour) {
					dset[v] = struct{}{}
				}
			}
		}
		for i := 0; i < ncounts; i++ {
			dset[rng.Int63n(int64(24*time.Hour)+1)] = struct{}{}
			k := float64(rng.Intn(1 + int(math.Min(r*86400, 2e9))))
			dd := int64((k + 0.5) / r * 1e9)
			for e := int64(-2); e <= 2; e++ {
				if dd+e >= 0 && dd+e <= int64(24*time.Hour) {
					dset[dd+e] = struct{}{}
				}
			}
		}
		// integer-overflow and float-precision boundaries of d*f (2^63, 2^63-5e8, 2^53)
		for _, b := range []float64{math.MaxInt64 / r, (math.MaxInt64 - 5e8) / r, float64(1<<53) / r, float64(1 << 53)} {
			for e := int64(-3); e <= 3; e++ {
				if v := int64(b) + e; v >= 0 && v <= int64(24*time.Hour) && b < 1e18 {
					dset[v] = struct{}{}
				}
			}
		}
		ds := make([]int64, 0, len(dset))
		for d := range dset {
			ds = append(ds, d)
		}
		sort.Slice(ds, func(i, j int) bool { return ds[i] < ds[j] })
		for _, d := range ds {
			w.emit(&NEvent{Op: "Ev", F: floatJ(r), X: numOfI64(d), Y: numOfI64(int64(f.Events(time.Duration(d))))})
		}
		// chains: each call's argument is what the previous call of the OTHER method just returned (duration -> count
		// -> duration -> count ...), starting from durations that are not a whole number of periods: a result may
		// depend on the argument and the rate only, not on what was asked before
		for i := 0; i < len(ds); i += 1 + len(ds)/40 {
			d := ds[i]
			for step := 0; step < 3; step++ {
				n := f.Events(time.Duration(d))
				w.emit(&NEvent{Op: "Ev", F: floatJ(r), X: numOfI64(d), Y: numOfI64(int64(n))})
				d2 := f.Duration(n)
				w.emit(&NEvent{Op: "Dur", F: floatJ(r), X: numOfI64(int64(n)), Y: numOfI64(int64(d2))})
				d = int64(d2) + int64(step)*7 + 1
				if d > int64(24*time.Hour) {
					break
				}
			}
		}
	}
}

// depthValuesS / depthValuesU: the quick tier's inputs for clipping at depth b: everything within 3 of
// 0, of the bounds of depth b and b+-1, of the type bounds, plus random values (sorted).
func depthValuesS(rng *rand.Rand, b, nrand int) []int64 {
	set := map[int64]struct{}{}
	for d := int64(-3); d <= 3; d++ {
		set[d] = struct{}{}
		set[math.MaxInt64-3+d] = struct{}{}
		set[math.MinInt64+3+d] = struct{}{}
		for _, k := range []int{b - 2, b - 1, b} {
			if k >= 0 && k < 63 {
				set[int64(1)<<uint(k)+d] = struct{}{}
				set[-(int64(1)<<uint(k))+d] = struct{}{}
			}
		}
	}
	for i := 0; i < nrand; i++ {
		set[int64(rng.Uint64())] = struct{}{}
		set[int64(rng.Uint64())>>uint(rng.Intn(64))] = struct{}{}
	}
	out := make([]int64, 0, len(set))
	for v := range set {
		out = append(out, v)
	}
	sort.Slice(out, func(i, j int) bool { return out[i] < out[j] })
	return out
}

func depthValuesU(rng *rand.Rand, b, nrand int) []uint64 {
	set := map[uint64]struct{}{}
	for d := uint64(0); d <= 6; d++ {
		set[d] = struct{}{}
		set[math.MaxUint64-d] = struct{}{}
		for _, k := range []int{b - 1, b, b + 1} {
			if k >= 0 && k < 64 {
				set[uint64(1)<<uint(k)+d-3] = struct{}{}
			}
		}
	}
	for i := 0; i < nrand; i++ {
		set[rng.Uint64()] = struct{}{}
		set[rng.Uint64()>>uint(rng.Intn(64))] = struct{}{}
	}
	out := make([]uint64, 0, len(set))
	for v := range set {
		out = append(out, v)
	}
	sort.Slice(out, func(i, j int) bool { return out[i] < out[j] })
	return out
}
