package harness

import "pipelined.dev/signal"

type ConvFn struct {
	Name string
	Src  []string
	Dst  []string
}

func allocator(ch, l, k int) signal.Allocator {
	return signal.Allocator{Channels: ch, Length: l, Capacity: k}
}

// SampleMap converts each of the first n samples of src alone (one-sample buffers) with the real
// function fn into dstTy and returns the distinct (source code, result code) pairs.
func SampleMap(fn string, src View, dstTy string, n int) (m [][2]int64) {
	defer func() {
		if recover() != nil {
			m = [][2]int64{}
		}
	}()
	m = [][2]int64{}
	seen := map[int64]bool{}
	for k := 0; k < n; k++ {
		x := src.Sample(k)
		if seen[x] {
			continue
		}
		seen[x] = true
		one := src.OneSample(k)
		out := NewView(dstTy, allocator(1, 1, 1))
		Convert(fn, one, out)
		m = append(m, [2]int64{x, out.Sample(0)})
	}
	return m
}
