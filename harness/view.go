package harness

// Generic wrappers that let the (type-agnostic) drivers operate real *signal.Buffer[T] values of
// every element type through one interface. Nothing here models the library: every method calls the
// public API and reports what it returned.

import (
	"math"
	"sync"

	"pipelined.dev/signal"
)

// Named element types (C13: "named types derived from the built-in ones").
type (
	MyInt8    int8
	MyInt16   int16
	MyInt32   int32
	MyInt64   int64
	MyInt     int
	MyUint8   uint8
	MyUint16  uint16
	MyUint32  uint32
	MyUint64  uint64
	MyUint    uint
	MyUintptr uintptr
	MyFloat32 float32
	MyFloat64 float64
)

// BuiltinTypes in a fixed order.
var BuiltinTypes = []string{"int8", "int16", "int32", "int64", "int", "uint8", "uint16", "uint32", "uint64", "uint", "uintptr", "float32", "float64"}
var NamedTypes = []string{"MyInt8", "MyInt16", "MyInt32", "MyInt64", "MyInt", "MyUint8", "MyUint16", "MyUint32", "MyUint64", "MyUint", "MyUintptr", "MyFloat32", "MyFloat64"}

// KindOf gives the underlying built-in kind of a harness type name (a static table; logged on Alloc).
func KindOf(ty string) string {
	for i, n := range NamedTypes {
		if n == ty {
			return BuiltinTypes[i]
		}
	}
	return ty
}

// ---- value codes ------------------------------------------------------------------------------
// A sample value is logged as a small integer when it is one (|v| < 2^30), otherwise as an interned
// code >= 2^30 that only supports equality (the storage/view model never inspects values).

const internBase = 1 << 30

var (
	internMu  sync.Mutex
	internTab = map[[2]uint64]int64{}
)

func intern(kind uint64, bits uint64) int64 {
	internMu.Lock()
	defer internMu.Unlock()
	k := [2]uint64{kind, bits}
	if c, ok := internTab[k]; ok {
		return c
	}
	c := int64(internBase + len(internTab))
	if c >= Huge {
		panic("intern table overflow")
	}
	internTab[k] = c
	return c
}

func codeOf[T signal.SignalTypes](v T) int64 {
	var z T
	switch any(z).(type) {
	case float32, float64, MyFloat32, MyFloat64:
		f := float64(v)
		if f == math.Trunc(f) && math.Abs(f) < internBase && !(f == 0 && math.Signbit(f)) {
			return int64(f)
		}
		return intern(1, math.Float64bits(f))
	}
	if v < 0 {
		i := int64(v)
		if i > -internBase {
			return i
		}
		return intern(2, uint64(i))
	}
	u := uint64(v)
	if u < internBase {
		return int64(u)
	}
	return intern(3, u)
}

// codeAs is the value code of the int64 x converted (by Go's conversion rules, as the harness does before it
// hands a value to the library) to the element type named ty.
func codeAs(ty string, x int64) int64 {
	switch KindOf(ty) {
	case "int8":
		return codeOf(int8(x))
	case "int16":
		return codeOf(int16(x))
	case "int32":
		return codeOf(int32(x))
	case "int64":
		return codeOf(int64(x))
	case "int":
		return codeOf(int(x))
	case "uint8":
		return codeOf(uint8(x))
	case "uint16":
		return codeOf(uint16(x))
	case "uint32":
		return codeOf(uint32(x))
	case "uint64":
		return codeOf(uint64(x))
	case "uint":
		return codeOf(uint(x))
	case "uintptr":
		return codeOf(uintptr(x))
	case "float32":
		return codeOf(float32(x))
	case "float64":
		return codeOf(float64(x))
	}
	panic(harnessBug("codeAs: unknown type " + ty))
}

func codesAs(ty string, xs []int64) []int64 {
	out := make([]int64, len(xs))
	for i, x := range xs {
		out[i] = codeAs(ty, x)
	}
	return out
}

func kindBits(ty string) int {
	switch KindOf(ty) {
	case "int8", "uint8":
		return 8
	case "int16", "uint16":
		return 16
	case "int32", "uint32", "float32":
		return 32
	}
	return 64
}

// extremesFor: int64 values whose conversion to the element type ty gives the values at the ends of its range
// (most negative, most negative + 1, -1 / all ones, largest, the sign bit alone) and values a detour through a
// narrower or a floating-point representation would change (2^24+1, 2^53+1, 2^62+1).
func extremesFor(ty string) []int64 {
	b := kindBits(ty)
	if isFloatTy(ty) {
		return []int64{1<<24 + 1, -(1<<24 + 1), 1 << 40, -(1 << 62)}
	}
	out := []int64{-1 << (b - 1), -1<<(b-1) + 1, -1, 1<<(b-1) - 1, -2}
	if b >= 32 {
		out = append(out, 1<<24+1, -(1<<24 + 1))
	}
	if b == 64 {
		out = append(out, 1<<53+1, -(1<<53 + 1), 1<<62+1)
	}
	return out
}

// View is a live *signal.Buffer[T] of some element type.
type View interface {
	Ty() string
	Raw() any
	Len() int
	Cap() int
	Length() int
	Capacity() int
	Channels() int
	BitDepth() int
	Slice(s, e int) View
	AppendSample(x int64)
	SetSample(i int, x int64)
	Sample(i int) int64
	Append(src View)
	// Data reads the whole capacity window through the public API: Slice(0,Capacity()) + Sample.
	// ok=false when that window does not have Cap() readable samples (projection failed).
	Data() (data []int64, ok bool)
	Write(srcTy string, in []int64) int
	WriteStriped(srcTy string, ins [][]int64, nils []bool) int
	Read(dstTy string, n int, sentinel int64) (int, []int64)
	ReadStriped(dstTy string, lens []int, nils []bool, sentinel int64) (int, [][]int64)
	ChanIndex(c, i, arg int) int
	ChanNew(c int)
	ChanSample(c, i int) int64
	ChanSet(c, i int, x int64)
	ChanShape(c int) []int64
	// OneSample returns a fresh 1-channel 1-sample buffer holding the raw value of sample k.
	OneSample(k int) View
	WriteF64(vals []float64) int
	AppendSampleF64(f float64)
	SetSampleF64(i int, f float64)
	ChanSetF64(c, i int, f float64)
	WriteBits(srcTy string, bits []uint64) (int, []int64)
}

type buf[T signal.SignalTypes] struct {
	ty string
	b  *signal.Buffer[T]
	// channel views are taken once and kept for the life of the view (a C[T] must keep addressing
	// its parent through later appends and sample appends)
	chans map[int]signal.C[T]
}

func (v *buf[T]) channel(c int) signal.C[T] {
	if cv, ok := v.chans[c]; ok {
		return cv
	}
	if v.chans == nil {
		v.chans = map[int]signal.C[T]{}
	}
	cv := v.b.Channel(c)
	v.chans[c] = cv
	return cv
}

// NewViewOf allocates a buffer of an arbitrary element type T (used for function-local named types).
func NewViewOf[T signal.SignalTypes](name string, a signal.Allocator) View {
	return &buf[T]{ty: name, b: signal.Alloc[T](a)}
}

func (v *buf[T]) Ty() string    { return v.ty }
func (v *buf[T]) Raw() any      { return v.b }
func (v *buf[T]) Len() int      { return v.b.Len() }
func (v *buf[T]) Cap() int      { return v.b.Cap() }
func (v *buf[T]) Length() int   { return v.b.Length() }
func (v *buf[T]) Capacity() int { return v.b.Capacity() }
func (v *buf[T]) Channels() int { return v.b.Channels() }
func (v *buf[T]) BitDepth() int { return int(v.b.BitDepth()) }
func (v *buf[T]) Slice(s, e int) View {
	begin()
	nb := v.b.Slice(s, e)
	end()
	return &buf[T]{ty: v.ty, b: nb}
}
func (v *buf[T]) AppendSample(x int64) {
	y := T(x)
	begin()
	v.b.AppendSample(y)
	end()
}
func (v *buf[T]) SetSample(i int, x int64) {
	y := T(x)
	begin()
	v.b.SetSample(i, y)
	end()
}
func (v *buf[T]) Sample(i int) int64 {
	begin()
	y := v.b.Sample(i)
	end()
	return codeOf(y)
}
func (v *buf[T]) Append(src View) {
	sb := src.(*buf[T]).b
	begin()
	v.b.Append(sb)
	end()
}
func (v *buf[T]) Data() (data []int64, ok bool) {
	defer func() {
		if recover() != nil {
			ok = false
		}
	}()
	n := v.b.Channels() * v.b.Capacity() // the part of the capacity window the API can reach (== Cap() when aligned)
	data = make([]int64, 0, n)
	if n == 0 {
		return data, true
	}
	w := v.b.Slice(0, v.b.Capacity())
	if w.Len() != n {
		return data, false
	}
	for i := 0; i < n; i++ {
		data = append(data, codeOf(w.Sample(i)))
	}
	return data, true
}
func (v *buf[T]) AppendSampleF64(f float64) {
	y := T(f)
	begin()
	v.b.AppendSample(y)
	end()
}
func (v *buf[T]) SetSampleF64(i int, f float64) {
	y := T(f)
	begin()
	v.b.SetSample(i, y)
	end()
}
func (v *buf[T]) ChanSetF64(c, i int, f float64) {
	y := T(f)
	cv := v.channel(c)
	begin()
	cv.SetSample(i, y)
	end()
}
func (v *buf[T]) WriteBits(srcTy string, bits []uint64) (int, []int64) {
	switch srcTy {
	case "int64":
		return writeBitsT[int64, T](bits, v.b)
	case "int":
		return writeBitsT[int, T](bits, v.b)
	case "uint64":
		return writeBitsT[uint64, T](bits, v.b)
	case "uint":
		return writeBitsT[uint, T](bits, v.b)
	case "uintptr":
		return writeBitsT[uintptr, T](bits, v.b)
	}
	panic(harnessBug("WriteBits: unsupported source type " + srcTy))
}
func (v *buf[T]) OneSample(k int) View {
	o := signal.Alloc[T](signal.Allocator{Channels: 1, Length: 1, Capacity: 1})
	o.SetSample(0, v.b.Sample(k))
	return &buf[T]{ty: v.ty, b: o}
}
func (v *buf[T]) ChanIndex(c, i, arg int) int {
	cv := v.channel(c)
	begin()
	r := cv.BufferIndex(arg, i)
	end()
	return r
}
func (v *buf[T]) ChanSample(c, i int) int64 {
	cv := v.channel(c)
	begin()
	y := cv.Sample(i)
	end()
	return codeOf(y)
}
func (v *buf[T]) ChanSet(c, i int, x int64) {
	y := T(x)
	cv := v.channel(c)
	begin()
	cv.SetSample(i, y)
	end()
}

// ChanNew takes a fresh channel view (measured: Channel() itself must not allocate).
func (v *buf[T]) ChanNew(c int) {
	begin()
	cv := v.b.Channel(c)
	end()
	if v.chans == nil {
		v.chans = map[int]signal.C[T]{}
	}
	v.chans[c] = cv
}
func (v *buf[T]) ChanShape(c int) []int64 {
	ch := v.channel(c)
	return []int64{int64(ch.Channels()), int64(ch.Length()), int64(ch.Capacity())}
}

func conv[S signal.SignalTypes](in []int64) []S {
	if in == nil {
		return nil
	}
	out := make([]S, len(in))
	for i, x := range in {
		out[i] = S(x)
	}
	return out
}
func codes[S signal.SignalTypes](in []S) []int64 {
	out := make([]int64, len(in))
	for i, x := range in {
		out[i] = codeOf(x)
	}
	return out
}

func writeT[S, D signal.SignalTypes](in []int64, dst *signal.Buffer[D]) int {
	src := conv[S](in)
	begin()
	n := signal.Write(src, dst)
	end()
	return n
}
// rowLensAfter: lengths of the caller's per-channel slices after the last WriteStriped call (they are elements of
// the caller's outer slice and must be left alone); single-goroutine use only.
var rowLensAfter []int

func writeStripedT[S, D signal.SignalTypes](ins [][]int64, nils []bool, dst *signal.Buffer[D]) int {
	if !concurrentRecording {
		rowLensAfter = nil
	}
	src := make([][]S, len(ins), len(ins)+5) // spare capacity in the outer slice: the count that matters is its length
	for c := range ins {
		if !nils[c] {
			src[c] = conv[S](ins[c])
			if src[c] == nil {
				src[c] = []S{}
			}
		}
	}
	defer func() {
		if !concurrentRecording {
			rowLensAfter = make([]int, len(src))
			for c := range src {
				rowLensAfter[c] = len(src[c])
			}
		}
	}()
	begin()
	n := signal.WriteStriped(src, dst)
	end()
	return n
}

// concurrentRecording is set while goroutines record in parallel (package-level scratch is then left alone).
var concurrentRecording bool
func readT[S, D signal.SignalTypes](src *signal.Buffer[S], n int, sentinel int64) (int, []int64) {
	dst := make([]D, n)
	for i := range dst {
		dst[i] = D(sentinel)
	}
	begin()
	c := signal.Read(src, dst)
	end()
	return c, codes(dst)
}
func readStripedT[S, D signal.SignalTypes](src *signal.Buffer[S], lens []int, nils []bool, sentinel int64) (c int, out [][]int64) {
	dst := make([][]D, len(lens), len(lens)+5)
	for k := range lens {
		if !nils[k] {
			// every row has three elements of spare capacity beyond its length, filled with the sentinel: a reader
			// may write the row's length and nothing behind it
			full := make([]D, lens[k]+3)
			for i := range full {
				full[i] = D(sentinel)
			}
			dst[k] = full[:lens[k]]
		}
	}
	out = make([][]int64, len(lens))
	defer func() {
		// the caller's slices are reported even when the call panics (C15)
		for k := range dst {
			out[k] = codes(dst[k])
			if !nils[k] {
				if len(dst[k]) != lens[k] {
					out[k] = append(out[k], -3) // the row's length was changed
					continue
				}
				for _, x := range dst[k][lens[k] : lens[k]+3] {
					if x != D(sentinel) {
						out[k] = append(out[k], -2) // written behind the end of the caller's row: never a valid result
						break
					}
				}
			}
		}
	}()
	begin()
	c = signal.ReadStriped(src, dst)
	end()
	return
}
