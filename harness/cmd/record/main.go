// record drives the real pipelined.dev/signal library (built from /repo's working tree) and writes
// ndjson traces for the TLA+ trace specifications.
package main

import (
	"encoding/json"
	"flag"
	"fmt"
	"os"

	"verif/harness"
)

func main() {
	profile := flag.String("profile", "hist", "driver profile")
	tier := flag.String("tier", "quick", "quick|thorough")
	seed := flag.Int64("seed", 1, "seed")
	out := flag.String("out", ".", "output directory")
	shards := flag.Int("shards", 8, "number of trace files")
	script := flag.String("script", "", "script file (profile=script)")
	flag.Parse()
	st, err := harness.RunProfile(*profile, *tier, *seed, *out, *shards, *script)
	if err != nil {
		fmt.Fprintln(os.Stderr, "record:", err)
		os.Exit(2)
	}
	json.NewEncoder(os.Stdout).Encode(st)
}
