// mutgen lists syntactic mutants of the library's non-test sources (operator swaps, constant changes, forced
// conditions, deleted statements) as JSON lines; bin/mutsweep applies each one in a scratch worktree, keeps those that
// compile and pass the repository's suite, and runs the quick checks against them.  It is a measuring instrument for
// the checks' blind spots, not part of any registered check.
package main

import (
	"encoding/json"
	"fmt"
	"go/ast"
	"go/parser"
	"go/token"
	"os"
	"path/filepath"
	"sort"
	"strconv"
	"strings"
)

type mutant struct {
	ID    int    `json:"id"`
	File  string `json:"file"`
	Func  string `json:"func"`
	Line  int    `json:"line"`
	Start int    `json:"start"`
	End   int    `json:"end"`
	Orig  string `json:"orig"`
	Repl  string `json:"repl"`
	Kind  string `json:"kind"`
}

var swaps = map[token.Token][]string{
	token.LSS: {"<=", ">"}, token.LEQ: {"<", ">="}, token.GTR: {">=", "<"}, token.GEQ: {">", "<="},
	token.EQL: {"!="}, token.NEQ: {"=="},
	token.ADD: {"-"}, token.SUB: {"+"}, token.MUL: {"/", "+"}, token.QUO: {"*"}, token.REM: {"*", "/"},
	token.SHL: {">>"}, token.SHR: {"<<"}, token.LAND: {"||"}, token.LOR: {"&&"},
	token.AND: {"|"}, token.OR: {"&"},
}
var assignSwaps = map[token.Token]string{
	token.ADD_ASSIGN: "-=", token.SUB_ASSIGN: "+=", token.MUL_ASSIGN: "/=", token.QUO_ASSIGN: "*=",
}

func main() {
	dir := os.Args[1]
	files, _ := filepath.Glob(filepath.Join(dir, "*.go"))
	sort.Strings(files)
	var out []mutant
	for _, path := range files {
		if strings.HasSuffix(path, "_test.go") || strings.HasSuffix(path, "doc.go") {
			continue
		}
		src, err := os.ReadFile(path)
		if err != nil {
			panic(err)
		}
		fset := token.NewFileSet()
		f, err := parser.ParseFile(fset, path, src, 0)
		if err != nil {
			panic(err)
		}
		off := func(p token.Pos) int { return fset.Position(p).Offset }
		for _, d := range f.Decls {
			fd, ok := d.(*ast.FuncDecl)
			if !ok || fd.Body == nil {
				continue
			}
			name := fd.Name.Name
			if fd.Recv != nil && len(fd.Recv.List) > 0 {
				name = string(src[off(fd.Recv.List[0].Type.Pos()):off(fd.Recv.List[0].Type.End())]) + "." + name
			}
			add := func(s, e int, repl, kind string) {
				out = append(out, mutant{File: filepath.Base(path), Func: name, Line: fset.Position(fset.File(fd.Pos()).Pos(s)).Line,
					Start: s, End: e, Orig: string(src[s:e]), Repl: repl, Kind: kind})
			}
			ast.Inspect(fd.Body, func(n ast.Node) bool {
				switch x := n.(type) {
				case *ast.BinaryExpr:
					for _, r := range swaps[x.Op] {
						add(off(x.OpPos), off(x.OpPos)+len(x.Op.String()), r, "binop")
					}
				case *ast.UnaryExpr:
					if x.Op == token.SUB || x.Op == token.NOT {
						add(off(x.OpPos), off(x.OpPos)+1, "", "unop-drop")
					}
				case *ast.BasicLit:
					if x.Kind == token.INT {
						v, err := strconv.ParseInt(x.Value, 0, 64)
						if err == nil {
							add(off(x.Pos()), off(x.End()), strconv.FormatInt(v+1, 10), "const+1")
							if v > 0 {
								add(off(x.Pos()), off(x.End()), strconv.FormatInt(v-1, 10), "const-1")
							}
						}
					}
					if x.Kind == token.FLOAT {
						add(off(x.Pos()), off(x.End()), "("+x.Value+"+1)", "fconst+1")
					}
				case *ast.IfStmt:
					add(off(x.Cond.Pos()), off(x.Cond.End()), "false", "if-false")
					add(off(x.Cond.Pos()), off(x.Cond.End()), "true", "if-true")
				case *ast.ForStmt:
					if x.Cond != nil {
						add(off(x.Cond.Pos()), off(x.Cond.End()), "false", "for-false")
					}
				case *ast.IncDecStmt:
					r := "--"
					if x.Tok == token.DEC {
						r = "++"
					}
					add(off(x.TokPos), off(x.TokPos)+2, r, "incdec")
				case *ast.AssignStmt:
					if r, ok := assignSwaps[x.Tok]; ok {
						add(off(x.TokPos), off(x.TokPos)+2, r, "assignop")
					}
				case *ast.BlockStmt:
					for _, st := range x.List {
						switch st.(type) {
						case *ast.ExprStmt, *ast.AssignStmt, *ast.IncDecStmt, *ast.DeferStmt, *ast.GoStmt:
							if as, ok := st.(*ast.AssignStmt); ok && as.Tok == token.DEFINE {
								continue // removing a declaration does not compile
							}
							add(off(st.Pos()), off(st.End()), "_ = 0", "stmt-del")
						case *ast.ReturnStmt:
							// keep
						}
					}
				case *ast.CaseClause:
					for _, st := range x.Body {
						switch st.(type) {
						case *ast.ExprStmt, *ast.AssignStmt, *ast.IncDecStmt:
							if as, ok := st.(*ast.AssignStmt); ok && as.Tok == token.DEFINE {
								continue
							}
							add(off(st.Pos()), off(st.End()), "_ = 0", "stmt-del")
						}
					}
				case *ast.Ident:
					if x.Name == "true" {
						add(off(x.Pos()), off(x.End()), "false", "bool")
					} else if x.Name == "false" {
						add(off(x.Pos()), off(x.End()), "true", "bool")
					}
				}
				return true
			})
		}
	}
	enc := json.NewEncoder(os.Stdout)
	for i := range out {
		out[i].ID = i + 1
		enc.Encode(out[i])
	}
	fmt.Fprintf(os.Stderr, "%d mutants\n", len(out))
}
