package harness

import (
	"fmt"
	"math/rand"
)

// Op is one scripted call. View indices are 0-based positions in World.Views.
type Op struct {
	K    string    `json:"k"`
	A    []int     `json:"a"`
	Ty   string    `json:"ty,omitempty"`
	Fn   string    `json:"fn,omitempty"`
	In   []int64   `json:"in,omitempty"`
	Ins  [][]int64 `json:"ins,omitempty"`
	Nils []bool    `json:"nils,omitempty"`
	Lens []int     `json:"lens,omitempty"`
}

// Do executes one scripted operation on the real library and records it.
func (w *World) Do(op Op) {
	a := op.A
	switch op.K {
	case "Alloc":
		w.Alloc(op.Ty, a[0], a[1], a[2])
	case "Slice":
		w.Slice(a[0], a[1], a[2])
	case "AppendSample":
		w.AppendSample(a[0], int64(a[1]))
	case "SetSample":
		w.SetSample(a[0], a[1], int64(a[2]))
	case "Sample":
		w.Sample(a[0], a[1])
	case "Append":
		w.Append(a[0], a[1])
	case "Write":
		w.Write(a[0], op.Ty, op.In)
	case "WriteStriped":
		w.WriteStriped(a[0], op.Ty, op.Ins, op.Nils)
	case "Read":
		w.Read(a[0], op.Ty, a[1])
	case "ReadStriped":
		w.ReadStriped(a[0], op.Ty, op.Lens, op.Nils)
	case "Convert":
		w.Convert(op.Fn, a[0], a[1])
	case "ChanIndex":
		arg := a[1]
		if len(a) > 3 {
			arg = a[3]
		}
		w.ChanIndex(a[0], a[1], a[2], arg)
	case "ChanSample":
		w.ChanSample(a[0], a[1], a[2])
	case "ChanSet":
		w.ChanSet(a[0], a[1], a[2], int64(a[3]))
	case "ChanShape":
		w.ChanShape(a[0], a[1])
	case "Drop":
		w.Drop(a[0])
	default:
		panic("unknown op " + op.K)
	}
	w.noteCase(op)
}

// noteCase counts distinct (operation, argument class, shape class) tuples actually executed.
func (w *World) noteCase(op Op) {
	key := op.K
	if len(op.A) > 0 && op.K != "Alloc" && op.A[0] < len(w.Views) {
		v := w.Views[op.A[0]]
		key += fmt.Sprintf("|%s|ch%d|len%d|cap%d", v.Ty(), v.Channels(), v.Len(), v.Cap())
	}
	key += fmt.Sprintf("|%v|%d|%d", op.A, len(op.In), len(op.Ins))
	w.Case(key)
}

// ---- steering helpers: observable facts only ---------------------------------------------------

func aligned(v View) bool { return v.Channels() == 0 || v.Len()%v.Channels() == 0 }

// appendJudgeable: Append needs operands of one element type (Go generics); everything else is specified.
func appendJudgeable(d, s View) bool { return d.Ty() == s.Ty() }

func smallCodes(v View) bool {
	data, ok := v.Data()
	if !ok {
		return false
	}
	for _, x := range data {
		if x < 0 || x > 127 {
			return false
		}
	}
	return true
}

func (w *World) stamps(n int) []int64 {
	out := make([]int64, n)
	for i := range out {
		out[i] = w.NextStamp()
	}
	return out
}

// nextValue: a stamp, or (one time in six) a value at the ends of the element type's range.
func (w *World) nextValue(rng *rand.Rand, ty string) int64 {
	if rng.Intn(6) == 0 {
		ext := extremesFor(ty)
		return ext[rng.Intn(len(ext))]
	}
	return w.NextStamp()
}

func (w *World) valuesFor(rng *rand.Rand, ty string, n int) []int64 {
	out := make([]int64, n)
	for i := range out {
		out[i] = w.nextValue(rng, ty)
	}
	return out
}

// HistOpts configures the random history driver.
type HistOpts struct {
	Types     []string
	MaxViews  int
	MaxCh     int
	MinCh     int
	MaxFrames int
	Steps     int
	Weights   map[string]int // op kind -> weight
	CrossType bool
	Blind     bool // no observation of contents until one final Observe (see World.Blind); needs !CrossType
}

var DefaultWeights = map[string]int{"Alloc": 6, "Slice": 14, "AppendSample": 12, "SetSample": 10, "Sample": 3,
	"Append": 14, "Write": 10, "WriteStriped": 5, "Read": 4, "ReadStriped": 4, "Convert": 4,
	"ChanSet": 3, "ChanSample": 2, "ChanIndex": 1, "ChanShape": 1, "Drop": 6}

func pick(rng *rand.Rand, wts map[string]int) string {
	tot := 0
	keys := make([]string, 0, len(wts))
	for _, k := range opOrder {
		if wts[k] > 0 {
			keys = append(keys, k)
			tot += wts[k]
		}
	}
	r := rng.Intn(tot)
	for _, k := range keys {
		r -= wts[k]
		if r < 0 {
			return k
		}
	}
	return keys[0]
}

var opOrder = []string{"Alloc", "Slice", "AppendSample", "SetSample", "Sample", "Append", "Write", "WriteStriped",
	"Read", "ReadStriped", "Convert", "ChanSet", "ChanSample", "ChanIndex", "ChanShape", "Drop"}

// roots: conservative lineage used only to avoid same-storage conversions (steering, not a model).
type lineage struct{ root []int }

// RandomHistory runs one random trace.
func RandomHistory(w *World, rng *rand.Rand, o HistOpts) {
	w.Reset()
	if o.Blind && !o.CrossType {
		w.NoObs, w.Blind = true, true
		defer func() {
			w.NoObs, w.Blind = false, false
			w.Observe()
		}()
	}
	lin := []int{}
	nextRoot := 0
	ty := func() string { return o.Types[rng.Intn(len(o.Types))] }
	alloc := func() {
		ch := o.MinCh + rng.Intn(o.MaxCh-o.MinCh+1)
		k := rng.Intn(o.MaxFrames + 1)
		l := rng.Intn(k + 1)
		if w.Alloc(ty(), ch, l, k) == "ok" {
			lin = append(lin, nextRoot)
			nextRoot++
		}
	}
	alloc()
	for step := 0; step < o.Steps; step++ {
		if len(w.Views) == 0 {
			alloc()
			continue
		}
		k := pick(rng, o.Weights)
		vi := rng.Intn(len(w.Views))
		v := w.Views[vi]
		switch k {
		case "Alloc":
			if len(w.Views) < o.MaxViews {
				alloc()
			}
		case "Slice":
			if len(w.Views) >= o.MaxViews {
				continue
			}
			c := v.Capacity()
			s, e := rng.Intn(c+3)-1, rng.Intn(c+3)-1
			if rng.Intn(4) != 0 && s > e {
				s, e = e, s
			}
			if w.Slice(vi, s, e) == "ok" {
				lin = append(lin, lin[vi])
			}
			w.noteCase(Op{K: "Slice", A: []int{vi, s, e}})
		case "AppendSample":
			if isFloatTy(v.Ty()) && rng.Intn(3) == 0 {
				w.AppendSampleFloat(vi, oddFloats[rng.Intn(len(oddFloats))])
				continue
			}
			w.Do(Op{K: "AppendSample", A: []int{vi, int(w.nextValue(rng, v.Ty()))}})
		case "SetSample":
			if isFloatTy(v.Ty()) && v.Len() > 0 && rng.Intn(3) == 0 {
				w.signFlip(vi, rng.Intn(v.Len()), -1, 0)
				continue
			}
			i := rng.Intn(v.Len()+2) - 1
			if rng.Intn(8) != 0 && v.Len() > 0 {
				i = rng.Intn(v.Len())
			}
			w.Do(Op{K: "SetSample", A: []int{vi, i, int(w.nextValue(rng, v.Ty()))}})
		case "Sample":
			i := rng.Intn(v.Len()+2) - 1
			w.Do(Op{K: "Sample", A: []int{vi, i}})
		case "Append":
			si := rng.Intn(len(w.Views))
			if rng.Intn(6) == 0 {
				si = vi
			}
			if !appendJudgeable(v, w.Views[si]) || v.Len()+w.Views[si].Len() > 2048 {
				continue // (repeated self-appends double the length; keep the logged contents bounded)
			}
			if w.Blind && lin[vi] == lin[si] {
				continue // an overlapping in-place append is judged from what was seen afterwards: not in a blind history
			}
			w.Do(Op{K: "Append", A: []int{vi, si}})
		case "Write":
			if isFloatTy(v.Ty()) && rng.Intn(3) == 0 {
				w.WriteFloats(vi, w.floatsFor(rng, rng.Intn(v.Len()+3)))
				continue
			}
			n := rng.Intn(v.Len() + 3)
			t := KindOf(v.Ty())
			if o.CrossType {
				t = BuiltinTypes[rng.Intn(len(BuiltinTypes))]
			}
			in := w.stamps(n)
			if !o.CrossType { // same element type on both sides: any value must come back unchanged
				in = w.valuesFor(rng, t, n)
			}
			w.Do(Op{K: "Write", A: []int{vi}, Ty: t, In: in})
		case "WriteStriped":
			nch := v.Channels()
			if rng.Intn(10) == 0 {
				nch = rng.Intn(o.MaxCh + 2)
			}
			if nch == v.Channels() && !aligned(v) {
				continue
			}
			ins := make([][]int64, nch)
			nils := make([]bool, nch)
			for c := range ins {
				if rng.Intn(6) == 0 {
					nils[c] = true
					continue
				}
				ins[c] = w.stamps(rng.Intn(v.Length() + 3))
				if !o.CrossType {
					ins[c] = w.valuesFor(rng, v.Ty(), len(ins[c]))
				}
			}
			t := KindOf(v.Ty())
			if o.CrossType {
				t = BuiltinTypes[rng.Intn(len(BuiltinTypes))]
			}
			w.Do(Op{K: "WriteStriped", A: []int{vi}, Ty: t, Ins: ins, Nils: nils})
		case "Read":
			t := KindOf(v.Ty())
			if o.CrossType && smallCodes(v) {
				t = BuiltinTypes[rng.Intn(len(BuiltinTypes))]
			}
			w.Do(Op{K: "Read", A: []int{vi, rng.Intn(v.Len() + 3)}, Ty: t})
		case "ReadStriped":
			nch := v.Channels()
			if rng.Intn(10) == 0 {
				nch = rng.Intn(o.MaxCh + 2)
			}
			if nch == v.Channels() && !aligned(v) {
				continue
			}
			lens := make([]int, nch)
			nils := make([]bool, nch)
			for c := range lens {
				if rng.Intn(6) == 0 {
					nils[c] = true
					continue
				}
				lens[c] = rng.Intn(v.Length() + 3)
			}
			t := KindOf(v.Ty())
			if o.CrossType && smallCodes(v) {
				t = BuiltinTypes[rng.Intn(len(BuiltinTypes))]
			}
			w.Do(Op{K: "ReadStriped", A: []int{vi}, Ty: t, Lens: lens, Nils: nils})
		case "Convert":
			di := rng.Intn(len(w.Views))
			d := w.Views[di]
			fn := convFor(rng, v.Ty(), d.Ty())
			if fn == "" || (lin[vi] == lin[di] && vi != di) {
				continue
			}
			w.Do(Op{K: "Convert", Fn: fn, A: []int{vi, di}})
		case "ChanSet", "ChanSample", "ChanIndex", "ChanShape":
			if v.Channels() == 0 || v.Length() == 0 {
				continue
			}
			c := rng.Intn(v.Channels())
			i := rng.Intn(v.Length())
			if v.Channels()*i+c >= v.Len() { // partly filled last frame
				continue
			}
			switch k {
			case "ChanSet":
				w.Do(Op{K: k, A: []int{vi, c, i, int(w.nextValue(rng, v.Ty()))}})
			case "ChanShape":
				w.Do(Op{K: k, A: []int{vi, c}})
			case "ChanIndex":
				w.Do(Op{K: k, A: []int{vi, c, i, rng.Intn(v.Channels() + 1)}})
			default:
				w.Do(Op{K: k, A: []int{vi, c, i}})
			}
		case "Drop":
			if len(w.Views) > 1 {
				w.Do(Op{K: "Drop", A: []int{vi}})
				lin = append(lin[:vi:vi], lin[vi+1:]...)
			}
		}
	}
}

func contains(xs []string, x string) bool {
	for _, y := range xs {
		if y == x {
			return true
		}
	}
	return false
}

// convFor picks a conversion admissible for the two element types ("" if none).
func convFor(rng *rand.Rand, sty, dty string) string {
	var c []string
	for _, f := range ConvFns {
		if contains(f.Src, sty) && contains(f.Dst, dty) {
			c = append(c, f.Name)
		}
	}
	if len(c) == 0 {
		return ""
	}
	return c[rng.Intn(len(c))]
}
