package harness

import "pipelined.dev/signal"

// Pool wraps a real signal.PoolAllocator[T]; byValue selects a copy of the allocator value instead of
// the pointer (the property quantifies over both ways of sharing it).
type Pool interface {
	Get(byValue bool) View
	Put(v View, byValue bool)
}

type pool[T signal.SignalTypes] struct {
	ty      string
	p       *signal.PoolAllocator[T]
	byValue signal.PoolAllocator[T]
}

func (p *pool[T]) Get(byValue bool) View {
	var b *signal.Buffer[T]
	if byValue {
		cp := p.byValue
		begin()
		b = cp.Get()
		end()
	} else {
		begin()
		b = p.p.Get()
		end()
	}
	return &buf[T]{ty: p.ty, b: b}
}

func (p *pool[T]) Put(v View, byValue bool) {
	b := v.(*buf[T]).b
	if byValue {
		cp := p.byValue
		begin()
		cp.Put(b)
		end()
	} else {
		begin()
		p.p.Put(b)
		end()
	}
}
