package harness

import "pipelined.dev/signal"

// Pool wraps a real signal.PoolAllocator[T]; byValue selects a copy of the allocator value instead of
// the pointer (the property quantifies over both ways of sharing it).
type Pool interface {
	Get(byValue bool) View
	Put(v View, byValue bool)
	// Copy returns a handle that shares the allocator BY VALUE: it owns one persistent copy of the
	// PoolAllocator value (as a goroutine that was handed the allocator by value would).
	Copy() Pool
}

type pool[T signal.SignalTypes] struct {
	ty      string
	p       *signal.PoolAllocator[T]
	byValue signal.PoolAllocator[T]
	own     bool
}

func (p *pool[T]) Copy() Pool {
	return &pool[T]{ty: p.ty, p: p.p, byValue: *p.p, own: true} // copied now, whatever state the allocator is in
}

func (p *pool[T]) Get(byValue bool) View {
	var b *signal.Buffer[T]
	if byValue && p.own {
		begin()
		b = p.byValue.Get() // this handle's own persistent copy of the value
		end()
	} else if byValue {
		cp := *p.p // a copy of the allocator value as it is NOW (a value receiver, a struct passed by value)
		begin()
		b = cp.Get()
		end()
	} else {
		begin()
		b = p.p.Get()
		end()
	}
	return &buf[T]{ty: p.ty, b: b}
}

func (p *pool[T]) Put(v View, byValue bool) {
	b := v.(*buf[T]).b
	if byValue && p.own {
		begin()
		p.byValue.Put(b)
		end()
	} else if byValue {
		cp := *p.p
		begin()
		cp.Put(b)
		end()
	} else {
		begin()
		p.p.Put(b)
		end()
	}
}
