package harness

// C18 driver: every steady-state operation is executed with per-call malloc counting switched on
// (single P, GC off: runtime.MemStats.Mallocs deltas are then exact). The recorder only reports the
// count; which budget applies (fits/grows, reuse/miss, ...) is decided by the trace specification from
// the pre-state of its own world.

import (
	"math/rand"
	"runtime/debug"
)

func driveAllocs(s *shardSet, rng *rand.Rand, thorough bool) ([]string, map[string]int) {
	EnableMeasure()
	debug.SetGCPercent(-1)
	types := []string{"int8", "int64", "uint8", "uint64", "float32", "float64", "int16", "uint32", "int", "uintptr", "int32", "uint16", "uint"}
	lens := []int{0, 1, 7, 64, 4096}
	if thorough {
		lens = []int{0, 1, 2, 7, 64, 500, 4096}
	}
	measured := 0
	for ti, ty := range types {
		kt := KindOf(ty)
		for ch := 1; ch <= 8; ch++ {
			if !thorough && (ti+ch)%3 != 0 {
				continue
			}
			for _, l := range lens {
				if l == 4096 && ch > 2 && !thorough {
					continue
				}
				w := s.Next()
				w.Reset()
				// destination windows with and without spare capacity
				w.Alloc(ty, ch, l, l+2)
				root := len(w.Views) - 1
				w.Slice(root, 0, l) // window with spare capacity (2 frames)
				win := len(w.Views) - 1
				w.Alloc(ty, ch, l, l) // no spare capacity
				full := len(w.Views) - 1
				for _, v := range []int{win, full} {
					n := w.Views[v].Len()
					if n > 0 {
						w.SetSample(v, rng.Intn(n), w.NextStamp())
						w.Sample(v, rng.Intn(n))
					}
					in := w.stamps(min2(n, 64))
					w.Write(v, kt, in)
					w.Write(v, BuiltinTypes[rng.Intn(13)], in)
					w.Read(v, kt, min2(n, 64))
					if ch > 0 {
						ins := make([][]int64, ch)
						nils := make([]bool, ch)
						lz := make([]int, ch)
						for c := range ins {
							ins[c] = w.stamps(min2(l, 16))
							lz[c] = min2(l, 16)
						}
						w.WriteStriped(v, kt, ins, nils)
						w.ReadStriped(v, kt, lz, nils)
						// ragged input: one channel shorter, one nil, lengths uneven
						if ch > 1 && l > 1 {
							rag := make([][]int64, ch)
							rnil := make([]bool, ch)
							rl := make([]int, ch)
							for c := range rag {
								rag[c] = w.stamps(min2(l, 16) - c%2)
								rl[c] = min2(l, 16) - (c+1)%2
							}
							rnil[ch-1] = true
							w.WriteStriped(v, kt, rag, rnil)
							w.ReadStriped(v, kt, rl, rnil)
							w.WriteStriped(v, kt, rag, make([]bool, ch))
						}
					}
					for c := 0; c < ch && l > 0; c++ {
						w.Views[v].ChanNew(c) // measured: Channel() returns the view by value
						w.emit(&Event{Op: "Observe", Res: "ok", Cnt: -1, Allocs: lastAllocs})
						w.ChanSet(v, c, rng.Intn(l), w.NextStamp())
						w.ChanSample(v, c, rng.Intn(l))
					}
					w.Slice(v, 0, l/2)
					w.Drop(len(w.Views) - 1)
				}
				// single-sample appends into the spare capacity, and on a full buffer
				for i := 0; i < 2*ch+1; i++ {
					w.AppendSample(win, w.NextStamp())
				}
				w.AppendSample(full, w.NextStamp())
				// appending within capacity: the window has 2 spare frames (minus the samples just appended)
				w.Slice(root, 0, l)
				win2 := len(w.Views) - 1
				w.Alloc(ty, ch, 1, 1)
				one := len(w.Views) - 1
				w.Write(one, kt, w.stamps(ch))
				w.Append(win2, one) // fits: no allocation allowed
				w.Append(win2, one) // fits
				w.Append(win2, one) // does not fit any more: unconstrained
				w.Append(full, one) // grows: unconstrained
				// appending within capacity from a source that overlaps the destination's spare window, and from
				// a window further along the same storage (values are outside every property; allocation is not)
				if l >= 4 {
					w.Alloc(ty, ch, l, l)
					ob := len(w.Views) - 1
					w.Slice(ob, 0, l/2)
					od := len(w.Views) - 1
					w.Slice(ob, l/4, l/4+l/2)
					w.Append(od, len(w.Views)-1)
				}
				// channel views of a parent whose last frame is partly filled
				if ch > 1 {
					w.Alloc(ty, ch, 1, 3)
					pv := len(w.Views) - 1
					w.AppendSample(pv, w.NextStamp())
					for c := 0; c < ch; c++ {
						w.Views[pv].ChanNew(c)
						w.emit(&Event{Op: "Observe", Res: "ok", Cnt: -1, Allocs: lastAllocs})
					}
					w.ChanSet(pv, 0, 1, w.NextStamp())
				}
				// all nine conversions from/to this type
				if ty == kt {
					for _, f := range ConvFns {
						if contains(f.Src, kt) {
							d := f.Dst[rng.Intn(len(f.Dst))]
							w.Alloc(d, ch, l, l)
							w.Convert(f.Name, full, len(w.Views)-1)
							w.Drop(len(w.Views) - 1)
						}
					}
				}
				measured++
			}
		}
	}
	for _, ty := range []string{"float64", "int64", "uint", "float32", "int16"} {
		for _, ch := range []int{5, 8, 2} {
			w := s.Next()
			w.Reset()
			fr := 4096
			w.Alloc(ty, ch, fr, fr)
			lens := make([]int, ch)
			ins := make([][]int64, ch)
			for c := range lens {
				lens[c] = fr
				ins[c] = w.stamps(fr)
			}
			w.ReadStriped(0, ty, lens, make([]bool, ch))
			w.WriteStriped(0, ty, ins, make([]bool, ch))
			w.Read(0, ty, ch*fr)
			w.Write(0, ty, w.stamps(ch*fr))
			measured++
		}
	}
	// appends that fit exactly or nearly, with partly filled last frames on both sides (fits is a statement about
	// samples, not frames): no allocation when destination length + source length <= capacity
	for _, ty := range []string{"int8", "int64", "float32"} {
		for ch := 2; ch <= 4; ch++ {
			for dl := 1; dl < 2*ch; dl++ {
				for sl := 1; sl <= 2*ch; sl++ {
					w := s.Next()
					w.Reset()
					capFrames := (dl + sl + ch - 1) / ch // the smallest whole number of frames that holds both
					w.Alloc(ty, ch, dl/ch, capFrames)
					for i := 0; i < dl%ch; i++ {
						w.AppendSample(0, w.NextStamp())
					}
					w.Alloc(ty, ch, sl/ch, (sl+ch-1)/ch)
					for i := 0; i < sl%ch; i++ {
						w.AppendSample(1, w.NextStamp())
					}
					w.Append(0, 1)
					measured++
				}
			}
		}
	}
	// large conversions (a path that hands big blocks to helper goroutines or scratch buffers allocates)
	for i, f := range ConvFns {
		for j, total := range []int{1<<14 + 3, 1<<17 + 5, 1<<20 + 1} {
			if total > 1<<17+5 && !thorough && i%4 != 0 {
				continue
			}
			ch := 1 + (i+j)%3
			fr := total/ch + 1
			w := s.Next()
			w.Reset()
			w.ConvertBig(f.Name, f.Src[(i+j)%len(f.Src)], f.Dst[(i*2+j)%len(f.Dst)], ch, fr, fr, 97)
			measured++
		}
	}
	return types, map[string]int{"worlds": measured}
}

func min2(a, b int) int {
	if a < b {
		return a
	}
	return b
}

// PoolCycles: warmed-up get/use/put cycles with one buffer outstanding, measured (C18).
func PoolCycles(pw *poolWriter, ty string, ch, l, k, cycles int) {
	pool := NewPool(ty, allocator(ch, l, k))
	// by pointer / through one persistent copy of the allocator value / through a fresh copy for every call (a value
	// receiver or a struct field passed by value copies the allocator each time)
	mode := (ch + l + k) % 3
	byValue := mode != 0
	if mode == 1 {
		pool = pool.Copy()
	}
	pw.tid++
	pw.Traces++
	pw.emit(&PEvent{Op: "NewPool", Kind: ty, Ch: ch, L: l, K: k, Procs: 1, Res: "ok", Allocs: -1})
	ids := map[any]int{}
	keep := []View{}
	for c := 0; c < cycles; c++ {
		v := pool.Get(byValue)
		a := lastAllocs
		keep = append(keep, v)
		id, seen := ids[v.Raw()]
		if !seen {
			id = len(ids) + 1
			ids[v.Raw()] = id
		}
		e := &PEvent{Op: "Get", G: 1, ID: id, Res: "ok", View: obsOf(v), Allocs: a}
		if seen {
			e.Reused = 1
		}
		pw.emit(e)
		x := int64(1 + c%100)
		v.AppendSample(x)
		pw.emit(&PEvent{Op: "Use", G: 1, ID: id, Kind: "AppendSample", A: []int64{x}, Res: "ok", View: obsOf(v), Allocs: -1})
		res := run(func() { pool.Put(v, byValue) })
		pw.emit(&PEvent{Op: "Put", G: 1, ID: id, Res: res, Allocs: lastAllocs})
	}
}

func init() { profileFns["allocs"] = driveAllocs }
