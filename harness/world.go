package harness

// The recorder: executes operations on real buffers and writes one ndjson event per public call with
// the call's arguments, its outcome (ok/panic, returned count, values read) and the API projection of
// every live view after the call. It contains no expectation about any of these.

import (
	"bufio"
	"fmt"
	"encoding/json"
	"os"
	"runtime"
	"strconv"
)

type ViewObs struct {
	Len      int     `json:"len"`
	Cap      int     `json:"cap"`
	Length   int     `json:"length"`
	Capacity int     `json:"capacity"`
	Ch       int     `json:"ch"`
	Bd       int     `json:"bd"`
	Data     []int64 `json:"data"`
}

type Event struct {
	Op     string     `json:"op"`
	Tid    int        `json:"tid"`
	Args   []int      `json:"args"`
	Ty     string     `json:"ty"`
	Kind   string     `json:"kind"`
	Fn     string     `json:"fn"`
	Res    string     `json:"res"`
	Cnt    int        `json:"cnt"`
	Vals   any        `json:"vals"`
	In     any        `json:"in"`
	Nils   []int      `json:"nils"`
	Lens   []int      `json:"lens"`
	Sent   int64      `json:"sent"`
	Map    [][2]int64 `json:"map"`
	Obs    []ViewObs  `json:"obs"`
	Pf     int        `json:"pf"`
	Allocs int        `json:"allocs"`
	Noobs  int        `json:"noobs"`
	Raw    []string   `json:"raw"` // the int64 values handed to the harness wrapper when they differ from their codes (re-execution)
	preObs []ViewObs  // projection taken earlier (see emitObserved)
}

const Sentinel = 111

// ---- allocation measurement (C18) ----------------------------------------------------------------
var (
	measuring  bool
	ms         runtime.MemStats
	m0         uint64
	lastAllocs = -1 // only written in measuring mode (single goroutine): concurrent drivers never touch it
)

// EnableMeasure switches per-call malloc counting on (single P, GC off: the counter is then exact).
func EnableMeasure() {
	measuring = true
	runtime.GOMAXPROCS(1)
}
func begin() {
	if measuring {
		lastAllocs = -1
		runtime.ReadMemStats(&ms)
		m0 = ms.Mallocs
	}
}
func end() {
	if measuring {
		runtime.ReadMemStats(&ms)
		lastAllocs = int(ms.Mallocs - m0)
	}
}

type World struct {
	Views   []View
	w       *bufio.Writer
	f       *os.File
	enc     *json.Encoder
	tid     int
	Events  int
	Traces  int
	OpCount map[string]int
	Cases   map[string]struct{} // distinct (op, argument class, shape class) tuples executed
	Stamp   int64
	// Silent suppresses logging (used for setup replays in allocation re-measurement)
	Silent bool
	// NoObs: do not project the views (events recorded inside a concurrent phase; only results are judged)
	NoObs bool
	// Blind (with NoObs): a history during which the harness never looks at the views' contents - looking means
	// Slice(0, Capacity()) + Sample on every view after every call, which would initialise (or flush) whatever a
	// buffer keeps lazily before the next call can run into it. Only cheap getters are logged for Append (the
	// specification needs the capacity a growing Append chose); one Observe at the end compares everything.
	Blind bool
}

func NewWorld(path string) (*World, error) {
	f, err := os.Create(path)
	if err != nil {
		return nil, err
	}
	bw := bufio.NewWriterSize(f, 1<<20)
	return &World{w: bw, f: f, enc: json.NewEncoder(bw), OpCount: map[string]int{}, Cases: map[string]struct{}{}}, nil
}

func (w *World) Close() error {
	if err := w.w.Flush(); err != nil {
		return err
	}
	return w.f.Close()
}

// NextStamp yields recognisable sample values 1..100 (representable in every element type).
func (w *World) NextStamp() int64 {
	w.Stamp = w.Stamp%100 + 1
	return w.Stamp
}

func (w *World) project() ([]ViewObs, int) {
	obs := make([]ViewObs, len(w.Views))
	pf := 0
	for i, v := range w.Views {
		data, ok := v.Data()
		if !ok {
			pf = 1
		}
		obs[i] = ViewObs{Len: v.Len(), Cap: v.Cap(), Length: v.Length(), Capacity: v.Capacity(),
			Ch: v.Channels(), Bd: v.BitDepth(), Data: data}
	}
	return obs, pf
}

func (w *World) emit(e *Event) {
	if w.Silent {
		return
	}
	if e.Args == nil {
		e.Args = []int{}
	}
	if e.Vals == nil {
		e.Vals = []int64{}
	}
	if e.In == nil {
		e.In = []int64{}
	}
	if e.Nils == nil {
		e.Nils = []int{}
	}
	if e.Raw == nil {
		e.Raw = []string{}
	}
	if e.Lens == nil {
		e.Lens = []int{}
	}
	if e.Map == nil {
		e.Map = [][2]int64{}
	}
	if e.preObs != nil {
		e.Obs = e.preObs
	} else if e.Op != "Reset" && !w.NoObs {
		e.Obs, e.Pf = w.project()
	} else {
		e.Obs = []ViewObs{}
		if w.Blind && e.Op == "Append" {
			for _, v := range w.Views {
				e.Obs = append(e.Obs, ViewObs{Len: v.Len(), Cap: v.Cap(), Length: v.Length(), Capacity: v.Capacity(), Ch: v.Channels(), Bd: v.BitDepth(), Data: []int64{}})
			}
		}
	}
	if w.NoObs && e.preObs == nil {
		e.Noobs = 1
	}
	e.Tid = w.tid
	e.Cnt = clampInt(e.Cnt)
	for i := range e.Args {
		e.Args[i] = clampInt(e.Args[i])
	}
	if err := w.enc.Encode(e); err != nil {
		panic(err)
	}
	w.Events++
	w.OpCount[e.Op]++
	// distinct executed cases: (operation, arguments, element type, shape of the operated view, outcome)
	if e.Op != "Reset" {
		key := fmt.Sprintf("%s|%v|%s|%s|%s|%d|%v", e.Op, e.Args, e.Ty, e.Fn, e.Res, e.Cnt, e.Lens)
		if len(e.Args) > 0 && e.Op != "Alloc" && e.Op != "ChannelLength" && e.Args[0] >= 1 && e.Args[0] <= len(e.Obs) {
			o := e.Obs[e.Args[0]-1]
			key += fmt.Sprintf("|%d|%d|%d|%d", o.Ch, o.Len, o.Cap, o.Bd)
		}
		w.Cases[key] = struct{}{}
	}
}

// Huge stands for any integer beyond the 32-bit range of TLC integers (its JSON reader truncates silently, so
// nothing larger may ever be written to a trace). Interned value codes live in [2^30, 2^31-2) and pass through.
const Huge = 1<<31 - 2

func clampInt(x int) int {
	if x > Huge {
		return Huge
	}
	if x < -Huge {
		return -Huge
	}
	return x
}

// harnessBug is a panic raised by the harness itself; it is never reported as a library panic.
type harnessBug string

// run executes f, converting a panic of the library into a result.
func run(f func()) (res string) {
	defer func() {
		if r := recover(); r != nil {
			if hb, ok := r.(harnessBug); ok {
				panic("harness bug: " + string(hb))
			}
			res = "panic"
		}
	}()
	if measuring {
		lastAllocs = -1
	}
	f()
	return "ok"
}

func (w *World) Reset() {
	w.Views = nil
	w.tid++
	w.Traces++
	w.emit(&Event{Op: "Reset", Res: "ok", Cnt: -1, Allocs: -1})
}

func (w *World) Case(key string) { w.Cases[key] = struct{}{} }

// emitObserved writes an event whose projection was taken earlier (observations buffered during a burst in which
// nothing may slow the calls down); it is still what the real buffer showed at that moment.
func (w *World) emitObserved(e *Event, obs []ViewObs) {
	e.preObs = obs
	w.emit(e)
}

func (w *World) Alloc(ty string, ch, l, k int) string {
	var nv View
	res := run(func() { nv = NewView(ty, allocator(ch, l, k)) })
	if res == "ok" {
		w.Views = append(w.Views, nv)
	}
	w.emit(&Event{Op: "Alloc", Args: []int{ch, l, k}, Ty: ty, Kind: KindOf(ty), Res: res, Cnt: -1, Allocs: -1})
	return res
}

// AllocWith registers a buffer allocated by mk (an element type the dispatch table does not know) as an Alloc event.
func (w *World) AllocWith(name, kind string, ch, l, k int, mk func() View) string {
	var nv View
	res := run(func() { nv = mk() })
	if res == "ok" {
		w.Views = append(w.Views, nv)
	}
	w.emit(&Event{Op: "Alloc", Args: []int{ch, l, k}, Ty: name, Kind: kind, Res: res, Cnt: -1, Allocs: -1})
	return res
}

func (w *World) Slice(v, s, e int) string {
	var nv View
	res := run(func() { nv = w.Views[v].Slice(s, e) })
	if res == "ok" {
		w.Views = append(w.Views, nv)
	}
	w.emit(&Event{Op: "Slice", Args: []int{v + 1, s, e}, Res: res, Cnt: -1, Allocs: lastAllocs})
	return res
}

// rawOf: the raw values of a call, kept only when some value is not its own code.
func rawOf(xs, codes []int64) []string {
	same := true
	for i := range xs {
		same = same && xs[i] == codes[i]
	}
	if same {
		return nil
	}
	out := make([]string, len(xs))
	for i, x := range xs {
		out[i] = strconv.FormatInt(x, 10)
	}
	return out
}

// The value x is converted to the element type by the harness (Go conversion: it wraps); what is logged is the
// code of the converted value, so any int64 may be passed.
func (w *World) AppendSample(v int, x int64) {
	c := codeAs(w.Views[v].Ty(), x)
	res := run(func() { w.Views[v].AppendSample(x) })
	w.emit(&Event{Op: "AppendSample", Args: []int{v + 1, int(c)}, Res: res, Cnt: -1, Allocs: lastAllocs, Raw: rawOf([]int64{x}, []int64{c})})
}

func (w *World) SetSample(v, i int, x int64) {
	c := codeAs(w.Views[v].Ty(), x)
	res := run(func() { w.Views[v].SetSample(i, x) })
	w.emit(&Event{Op: "SetSample", Args: []int{v + 1, i, int(c)}, Res: res, Cnt: -1, Allocs: lastAllocs, Raw: rawOf([]int64{x}, []int64{c})})
}

func (w *World) Sample(v, i int) {
	var x int64
	res := run(func() { x = w.Views[v].Sample(i) })
	e := &Event{Op: "Sample", Args: []int{v + 1, i}, Res: res, Cnt: -1, Allocs: lastAllocs}
	if res == "ok" {
		e.Vals = []int64{x}
	}
	w.emit(e)
}

func (w *World) Append(d, s int) string {
	res := run(func() { w.Views[d].Append(w.Views[s]) })
	w.emit(&Event{Op: "Append", Args: []int{d + 1, s + 1}, Res: res, Cnt: -1, Allocs: lastAllocs})
	return res
}

func (w *World) Write(v int, srcTy string, in []int64) {
	cnt := -1
	res := run(func() { cnt = w.Views[v].Write(srcTy, in) })
	if in == nil {
		in = []int64{}
	}
	codes := codesAs(srcTy, in)
	w.emit(&Event{Op: "Write", Args: []int{v + 1}, Ty: srcTy, In: codes, Res: res, Cnt: cnt, Allocs: lastAllocs, Raw: rawOf(in, codes)})
}

func nilInts(nils []bool) []int {
	out := make([]int, len(nils))
	for i, b := range nils {
		if b {
			out[i] = 1
		}
	}
	return out
}

func (w *World) WriteStriped(v int, srcTy string, ins [][]int64, nils []bool) {
	cnt := -1
	res := run(func() { cnt = w.Views[v].WriteStriped(srcTy, ins, nils) })
	in := make([][]int64, len(ins))
	for c := range ins {
		in[c] = codesAs(srcTy, ins[c])
		if ins[c] == nil || nils[c] {
			in[c] = []int64{}
		}
	}
	lens := make([]int, len(in))
	for c := range in {
		lens[c] = len(in[c])
	}
	if !concurrentRecording && rowLensAfter != nil && len(rowLensAfter) == len(in) {
		lens = rowLensAfter // what the caller's rows look like after the call
	}
	w.emit(&Event{Op: "WriteStriped", Args: []int{v + 1}, Ty: srcTy, In: in, Nils: nilInts(nils), Lens: lens, Res: res, Cnt: cnt, Allocs: lastAllocs})
}

func (w *World) Read(v int, dstTy string, n int) {
	cnt := -1
	var after []int64
	res := run(func() { cnt, after = w.Views[v].Read(dstTy, n, Sentinel) })
	e := &Event{Op: "Read", Args: []int{v + 1, n}, Ty: dstTy, Sent: Sentinel, Res: res, Cnt: cnt, Allocs: lastAllocs}
	if res == "ok" {
		e.Vals = after
	}
	w.emit(e)
}

func (w *World) ReadStriped(v int, dstTy string, lens []int, nils []bool) {
	cnt := -1
	var after [][]int64
	res := run(func() { cnt, after = w.Views[v].ReadStriped(dstTy, lens, nils, Sentinel) })
	ls := make([]int, len(lens))
	for c := range lens {
		if !nils[c] {
			ls[c] = lens[c]
		}
	}
	e := &Event{Op: "ReadStriped", Args: []int{v + 1}, Ty: dstTy, Lens: ls, Nils: nilInts(nils), Sent: Sentinel, Res: res, Cnt: cnt, Allocs: lastAllocs}
	if res == "ok" {
		e.Vals = after
	} else {
		// the caller's slices must be untouched by a rejected call (C15): log them as the "values"
		e.Vals = []int64{}
		for c := range after {
			for _, x := range after[c] {
				if x != Sentinel {
					e.Vals = []int64{-1} // poisoned: a rejected call wrote into the caller's slice
				}
			}
		}
	}
	w.emit(e)
}

// Convert applies the real conversion fn from view s to view d. The per-sample map is obtained from
// the same real function on one-sample buffers (so the structure of the call is judged here and the
// values in the numeric checks).
func (w *World) Convert(fn string, s, d int) string {
	src, dst := w.Views[s], w.Views[d]
	n := src.Len()
	if dst.Len() < n {
		n = dst.Len()
	}
	m := SampleMap(fn, src, dst.Ty(), n)
	cnt := -1
	res := run(func() { cnt = Convert(fn, src, dst) }) // measured inside the dispatch, around the library call only
	w.emit(&Event{Op: "Convert", Fn: fn, Args: []int{s + 1, d + 1}, Map: m, Res: res, Cnt: cnt, Allocs: lastAllocs})
	return res
}

// ChanIndex asks the view of channel c for the buffer index of i; arg is the (ignored by the
// property) channel argument of C.BufferIndex.
func (w *World) ChanIndex(v, c, i, arg int) {
	cnt := -1
	res := run(func() { cnt = w.Views[v].ChanIndex(c, i, arg) })
	w.emit(&Event{Op: "ChanIndex", Args: []int{v + 1, c, i, arg}, Res: res, Cnt: cnt, Allocs: lastAllocs})
}

func (w *World) ChanSample(v, c, i int) {
	var x int64
	res := run(func() { x = w.Views[v].ChanSample(c, i) })
	e := &Event{Op: "ChanSample", Args: []int{v + 1, c, i}, Res: res, Cnt: -1, Allocs: lastAllocs}
	if res == "ok" {
		e.Vals = []int64{x}
	}
	w.emit(e)
}

func (w *World) ChanSet(v, c, i int, x int64) {
	code := codeAs(w.Views[v].Ty(), x)
	res := run(func() { w.Views[v].ChanSet(c, i, x) })
	w.emit(&Event{Op: "ChanSet", Args: []int{v + 1, c, i, int(code)}, Res: res, Cnt: -1, Allocs: lastAllocs, Raw: rawOf([]int64{x}, []int64{code})})
}

func (w *World) ChanShape(v, c int) {
	var s []int64
	res := run(func() { s = w.Views[v].ChanShape(c) })
	e := &Event{Op: "ChanShape", Args: []int{v + 1, c}, Res: res, Cnt: -1, Allocs: -1}
	if res == "ok" {
		e.Vals = s
	}
	w.emit(e)
}

func (w *World) Drop(v int) {
	w.Views = append(w.Views[:v:v], w.Views[v+1:]...)
	w.emit(&Event{Op: "Drop", Args: []int{v + 1}, Res: "ok", Cnt: -1, Allocs: -1})
}

// Observe logs the projection of every live view without calling anything else.
func (w *World) Observe() {
	w.emit(&Event{Op: "Observe", Res: "ok", Cnt: -1, Allocs: -1})
}
