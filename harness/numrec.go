package harness

// Numeric recorder: runs the REAL conversion / bit-depth / frequency functions and logs exact inputs and
// outputs for NumTrace.tla. Integers are written as [sign, limbs base 2^15 little endian], floats as
// class + integer mantissa + binary exponent taken from their bit patterns. No property arithmetic
// happens here; run-length records (Seg, RTSeg, Clip) are a lossless compression of consecutive points.

import (
	"bufio"
	"bytes"
	"encoding/json"
	"math"
	"math/big"
	"math/rand"
	"os"
	"sort"
	"unsafe"

	"golang.org/x/exp/constraints"
	"pipelined.dev/signal"
)

type FloatJ struct {
	Cls string  `json:"cls"`
	N   []int64 `json:"n"`
	E   int     `json:"e"`
}

type NEvent struct {
	Op  string  `json:"op"`
	Tid int     `json:"tid"`
	Fam string  `json:"fam"`
	Fn  string  `json:"fn"`
	STy string  `json:"sty"`
	DTy string  `json:"dty"`
	Ss  int     `json:"ss"`
	Sd  int     `json:"sd"`
	Ds  int     `json:"ds"`
	Dd  int     `json:"dd"`
	P   int     `json:"p"`
	Uo  int     `json:"uo"`
	B   int     `json:"b"`
	H   int     `json:"h"`
	L   int     `json:"l"`
	X   []int64 `json:"x"`
	X1  []int64 `json:"x1"`
	Y   []int64 `json:"y"`
	Z   []int64 `json:"z"`
	K   []int64 `json:"k"`
	F   *FloatJ `json:"f"`
	F1  *FloatJ `json:"f1"`
	G   *FloatJ `json:"g"`
}

var zeroNum = []int64{0}
var zeroFloat = &FloatJ{Cls: "fin", N: []int64{0}, E: 0}

type numWriter struct {
	f       *os.File
	mem     *bytes.Buffer
	w       *bufio.Writer
	enc     *json.Encoder
	Events  int
	Scans   int
	tid     int
	Ops     map[string]int
	Fns     map[string]int
	Capped  int
	maxSegs int
}

func newNumWriter(path string, tidBase int) (*numWriter, error) {
	f, err := os.Create(path)
	if err != nil {
		return nil, err
	}
	w := bufio.NewWriterSize(f, 1<<20)
	return &numWriter{f: f, w: w, enc: json.NewEncoder(w), tid: tidBase, Ops: map[string]int{}, Fns: map[string]int{}, maxSegs: 300000}, nil
}

func (n *numWriter) emit(e *NEvent) {
	if e.X == nil {
		e.X = zeroNum
	}
	if e.X1 == nil {
		e.X1 = zeroNum
	}
	if e.Y == nil {
		e.Y = zeroNum
	}
	if e.Z == nil {
		e.Z = zeroNum
	}
	if e.K == nil {
		e.K = zeroNum
	}
	if e.F == nil {
		e.F = zeroFloat
	}
	if e.F1 == nil {
		e.F1 = zeroFloat
	}
	if e.G == nil {
		e.G = zeroFloat
	}
	e.Tid = n.tid
	if err := n.enc.Encode(e); err != nil {
		panic(err)
	}
	n.Events++
	n.Ops[e.Op]++
}

func (n *numWriter) start(e *NEvent) {
	n.tid++
	n.Scans++
	e.Op = "Start"
	n.Fns[e.Fn+"/"+e.STy+"/"+e.DTy]++
	n.emit(e)
}

func (n *numWriter) close() {
	n.w.Flush()
	if n.f != nil {
		n.f.Close()
	}
}

// newMemWriter records into memory (one per instantiation when instantiations run in parallel).
func newMemWriter(tidBase int) *numWriter {
	var b bytes.Buffer
	w := bufio.NewWriterSize(&b, 1<<16)
	return &numWriter{mem: &b, w: w, enc: json.NewEncoder(w), tid: tidBase, Ops: map[string]int{}, Fns: map[string]int{}, maxSegs: 300000}
}

// absorb appends what a memory writer recorded.
func (n *numWriter) absorb(m *numWriter) {
	m.w.Flush()
	n.w.Write(m.mem.Bytes())
	n.Events += m.Events
	n.Scans += m.Scans
	n.Capped += m.Capped
	for k, v := range m.Ops {
		n.Ops[k] += v
	}
	for k, v := range m.Fns {
		n.Fns[k] += v
	}
}

var limbMask = big.NewInt(32767)

func numOfBig(v *big.Int) []int64 {
	out := []int64{0}
	if v.Sign() < 0 {
		out[0] = 1
	}
	m := new(big.Int).Abs(v)
	t := new(big.Int)
	for m.Sign() > 0 {
		out = append(out, t.And(m, limbMask).Int64())
		m.Rsh(m, 15)
	}
	return out
}

func numOfI64(v int64) []int64  { return numOfBig(big.NewInt(v)) }
func numOfU64(v uint64) []int64 { return numOfBig(new(big.Int).SetUint64(v)) }

func isSigned[T constraints.Integer]() bool { return ^T(0) < 0 }
func bitsOf[T constraints.Integer]() int    { return int(unsafe.Sizeof(T(0))) * 8 }

func numOfInt[T constraints.Integer](v T) []int64 {
	if isSigned[T]() {
		return numOfI64(int64(v))
	}
	return numOfU64(uint64(v))
}

// floatJ encodes a float64 value exactly.
func floatJ(f float64) *FloatJ {
	bits := math.Float64bits(f)
	neg := int64(bits >> 63)
	exp := int((bits >> 52) & 0x7FF)
	frac := bits & (1<<52 - 1)
	switch {
	case exp == 0x7FF && frac != 0:
		return &FloatJ{Cls: "nan", N: []int64{0}, E: 0}
	case exp == 0x7FF:
		return &FloatJ{Cls: "inf", N: []int64{neg}, E: 0}
	}
	var m uint64
	e := 0
	if exp == 0 {
		m, e = frac, -1074
	} else {
		m, e = frac|1<<52, exp-1075
	}
	for m != 0 && m&1 == 0 {
		m >>= 1
		e++
	}
	if m == 0 {
		e = 0
	}
	n := numOfU64(m)
	n[0] = neg
	return &FloatJ{Cls: "fin", N: n, E: e}
}

// ---- running the real conversions on slices of raw values ------------------------------------------

// dirty returns a recognisable non-zero value of type D spread over its whole width (so that a stale sample
// neither looks like a converted one nor narrows to zero).
func dirty[D signal.SignalTypes](i int) D {
	var z D
	if z-1 < 0 && (z+1)/2 != 0 { // a floating-point type (named ones included): 1/2 is not truncated
		if i%2 == 0 {
			return D(1) / 3
		}
		return -D(2) / 3
	}
	switch any(z).(type) {
	case float32, float64:
		if i%2 == 0 {
			return D(1) / 3
		}
		return -D(2) / 3
	}
	pat := uint64(0x5555555555555555)
	if i%2 == 1 {
		pat = 0x2A2A2A2A2A2A2A2A
	}
	return dirtyInt[D](pat)
}

func dirtyInt[D signal.SignalTypes](pat uint64) D {
	var d D
	sz := unsafe.Sizeof(d) * 8
	v := pat & (1<<(sz-1) - 1) // keep the sign bit clear: positive in every integer type
	// D(v) of a uint64 is exact for every integer D after masking
	return fromU64[D](v)
}

func fromU64[D signal.SignalTypes](v uint64) D { return D(v) }

// preamble: before a recorded conversion the same function converts the recorded input reversed (and rotated), repeated
// to more than twice its length, into destinations HALF as long: whatever a call leaves behind beyond the common
// prefix (pooled scratch, cached per-position decisions, ...) must not reach the next call.
func preamble[S, D signal.SignalTypes](conv func(*signal.Buffer[S], *signal.Buffer[D]) int, in []S) {
	n := len(in)
	if n < 2 {
		return
	}
	for mode := 0; mode < 2; mode++ {
		m := 2*n + 3
		src := signal.Alloc[S](signal.Allocator{Channels: 1, Length: m, Capacity: m})
		dst := signal.Alloc[D](signal.Allocator{Channels: 1, Length: n / 2, Capacity: n / 2})
		for i := 0; i < m; i++ {
			if mode == 0 {
				src.SetSample(i, in[(n-1-i%n)%n])
			} else {
				src.SetSample(i, in[(i+n/2)%n])
			}
		}
		conv(src, dst)
	}
}

func convertSlice[S, D signal.SignalTypes](conv func(*signal.Buffer[S], *signal.Buffer[D]) int, in []S) []D {
	n := len(in)
	if n <= 4096 { // (the exhaustive sweeps convert 2^16 values per call, thousands of times: not there)
		preamble(conv, in)
	}
	// Interleave over 1..3 channels. The buffers are filled sample by sample, so when n is not a multiple of the
	// channel count the last frame is partly filled (ragged); the destination starts dirty, so that a sample the
	// function fails to convert cannot pass as a converted one.
	ch := 1 + n%3
	if n < 4 {
		ch = 1
	}
	frames := (n + ch - 1) / ch
	if n%ch == 0 && n%2 == 0 && n > 0 {
		// whole frames: the conversion is given handles that were sliced BEFORE anything was stored (the samples
		// get there through the parent), so state cached per handle at allocation time ("still silent", "all
		// within [-1,1]", ...) would be stale
		srcRoot := signal.Alloc[S](signal.Allocator{Channels: ch, Length: frames, Capacity: frames})
		dstRoot := signal.Alloc[D](signal.Allocator{Channels: ch, Length: frames, Capacity: frames})
		src, dst := srcRoot.Slice(0, frames), dstRoot.Slice(0, frames)
		for i, v := range in {
			srcRoot.SetSample(i, v)
			dstRoot.SetSample(i, dirty[D](i))
		}
		conv(src, dst)
		out := make([]D, n)
		for i := range out {
			out[i] = dstRoot.Sample(i)
		}
		return out
	}
	src := signal.Alloc[S](signal.Allocator{Channels: ch, Length: 0, Capacity: frames})
	dst := signal.Alloc[D](signal.Allocator{Channels: ch, Length: 0, Capacity: frames})
	for i, v := range in {
		src.AppendSample(v)
		dst.AppendSample(dirty[D](i))
	}
	conv(src, dst)
	out := make([]D, n)
	for i := range out {
		out[i] = dst.Sample(i)
	}
	return out
}

// shuffledBlocks converts xs in random order through many small buffers (2..9 samples, 1..3 channels), so that
// a sample's result cannot depend on what else is in the buffer or where it sits; emits unordered points.
func shuffledBlocks[S, D signal.SignalTypes](rng *rand.Rand, conv func(*signal.Buffer[S], *signal.Buffer[D]) int, xs []S, max int, emit func(x S, y D)) {
	shuffledBlocksRT(rng, conv, nil, xs, max, emit, nil)
}

// shuffledBlocksRT: as shuffledBlocks; when back is given, the large block is also converted back as ONE block and
// the distinct (input, output, round trip) triples are reported.
func shuffledBlocksRT[S, D signal.SignalTypes](rng *rand.Rand, conv func(*signal.Buffer[S], *signal.Buffer[D]) int, back func(*signal.Buffer[D], *signal.Buffer[S]) int, xs []S, max int, emit func(x S, y D), emitRT func(x S, y D, z S)) {
	idx := rng.Perm(len(xs))
	if len(idx) > max {
		idx = idx[:max]
	}
	for len(idx) > 0 {
		n := 2 + rng.Intn(8)
		if n > len(idx) {
			n = len(idx)
		}
		in := make([]S, n)
		for i := range in {
			in[i] = xs[idx[i]]
		}
		ys := convertSlice(conv, in)
		for i := range in {
			emit(in[i], ys[i])
		}
		idx = idx[n:]
	}
	// one large block (2^16 + 1..5000 samples, drawn with repetition): a path that switches strategy for large
	// buffers (blocks, tables, goroutines, run detection) must convert every sample as if it were alone; every
	// DISTINCT (input, output) pair of the block is judged (capped), plus the last positions
	if len(xs) > 0 {
		n := 1<<16 + 1 + rng.Intn(5000)
		in := make([]S, n)
		for i := range in {
			in[i] = xs[rng.Intn(len(xs))]
		}
		ys := convertSlice(conv, in)
		type pair struct {
			x S
			y D
		}
		seen := map[pair]struct{}{}
		var zs []S
		if back != nil {
			zs = convertSlice(back, ys)
		}
		for i := n - 1; i >= 0 && len(seen) < 3000; i-- {
			p := pair{in[i], ys[i]}
			if _, ok := seen[p]; !ok {
				seen[p] = struct{}{}
				emit(in[i], ys[i])
				if zs != nil {
					emitRT(in[i], ys[i], zs[i])
				}
			}
		}
	}
}

// repeatDistinct converts the same block `reps` times and reports every DISTINCT (input, output) pair it ever saw
// (a conversion is a function of the sample and the two formats: if another goroutine's concurrent conversion, or an
// earlier call, can change the result, more than one output shows up for an input).
func repeatDistinct[S, D signal.SignalTypes](conv func(*signal.Buffer[S], *signal.Buffer[D]) int, in []S, reps int, emit func(x S, y D)) {
	type pair struct {
		x S
		y D
	}
	seen := map[pair]struct{}{}
	for r := 0; r < reps; r++ {
		ys := convertSlice(conv, in)
		for i := range in {
			p := pair{in[i], ys[i]}
			if _, ok := seen[p]; !ok {
				seen[p] = struct{}{}
				emit(in[i], ys[i])
			}
		}
	}
}

// intValues: the source values a quick sweep visits, in increasing order (exhaustive for 8-bit types).
func intValues[T constraints.Integer](rng *rand.Rand, nrand int) []T {
	bits := bitsOf[T]()
	signed := isSigned[T]()
	set := map[T]struct{}{}
	if bits == 8 {
		for i := 0; i < 256; i++ {
			set[T(i)] = struct{}{} // wraps through every 8-bit value
		}
	} else {
		add := func(b *big.Int) {
			// keep only values representable in T
			lo, hi := new(big.Int), new(big.Int)
			if signed {
				lo.Neg(new(big.Int).Lsh(big.NewInt(1), uint(bits-1)))
				hi.Sub(new(big.Int).Lsh(big.NewInt(1), uint(bits-1)), big.NewInt(1))
			} else {
				hi.Sub(new(big.Int).Lsh(big.NewInt(1), uint(bits)), big.NewInt(1))
			}
			if b.Cmp(lo) < 0 || b.Cmp(hi) > 0 {
				return
			}
			if signed {
				set[T(b.Int64())] = struct{}{}
			} else {
				set[T(b.Uint64())] = struct{}{}
			}
		}
		for k := 0; k <= bits; k++ {
			p := new(big.Int).Lsh(big.NewInt(1), uint(k))
			p15 := new(big.Int).Add(p, new(big.Int).Rsh(p, 1))
			for d := int64(-3); d <= 3; d++ {
				for _, base := range []*big.Int{p, p15} {
					v := new(big.Int).Add(base, big.NewInt(d))
					add(v)
					add(new(big.Int).Neg(v))
					if !signed { // around the zero-amplitude code too
						h := new(big.Int).Lsh(big.NewInt(1), uint(bits-1))
						add(new(big.Int).Add(h, v))
						add(new(big.Int).Sub(h, v))
					}
				}
			}
		}
		for d := int64(-3); d <= 3; d++ {
			add(big.NewInt(d))
		}
		for i := 0; i < nrand; i++ {
			set[T(rng.Uint64())] = struct{}{}
			set[T(rng.Uint64()>>uint(rng.Intn(bits)))] = struct{}{}
		}
	}
	out := make([]T, 0, len(set))
	for v := range set {
		out = append(out, v)
	}
	sort.Slice(out, func(i, j int) bool { return out[i] < out[j] })
	return out
}

func b2i(b bool) int {
	if b {
		return 1
	}
	return 0
}

// quantSweep: C06/C07 for one (S, D) instantiation; back is the narrowing function returning to S
// (used when D is deeper than S).
func quantSweep[S, D constraints.Integer](w *numWriter, rng *rand.Rand, fn, sty, dty string,
	conv func(*signal.Buffer[S], *signal.Buffer[D]) int, back func(*signal.Buffer[D], *signal.Buffer[S]) int, nrand int, exhaustive bool) {
	sd, dd := bitsOf[S](), bitsOf[D]()
	w.start(&NEvent{Fam: "quant", Fn: fn, STy: sty, DTy: dty, Ss: b2i(isSigned[S]()), Sd: sd, Ds: b2i(isSigned[D]()), Dd: dd})
	if sd == 16 || (exhaustive && sd == 32) {
		quantExhaustive(w, conv, back)
		quantShuffled(w, rng, fn, sty, dty, conv, back, intValues[S](rng, nrand))
		return
	}
	xs := intValues[S](rng, nrand)
	ys := convertSlice(conv, xs)
	for i := range xs {
		w.emit(&NEvent{Op: "P", X: numOfInt(xs[i]), Y: numOfInt(ys[i])})
	}
	if dd > sd {
		zs := convertSlice(back, ys)
		for i := range xs {
			w.emit(&NEvent{Op: "RT", X: numOfInt(xs[i]), Y: numOfInt(ys[i]), Z: numOfInt(zs[i])})
		}
	}
	quantShuffled(w, rng, fn, sty, dty, conv, back, xs)
}

func quantShuffled[S, D constraints.Integer](w *numWriter, rng *rand.Rand, fn, sty, dty string, conv func(*signal.Buffer[S], *signal.Buffer[D]) int, back func(*signal.Buffer[D], *signal.Buffer[S]) int, xs []S) {
	w.start(&NEvent{Fam: "quant", Fn: fn, STy: sty, DTy: dty, Ss: b2i(isSigned[S]()), Sd: bitsOf[S](), Ds: b2i(isSigned[D]()), Dd: bitsOf[D](), Uo: 1})
	if bitsOf[D]() <= bitsOf[S]() {
		back = nil // the round trip is claimed for widening only
	}
	type pt struct {
		x S
		y D
	}
	var pts []pt
	shuffledBlocksRT(rng, conv, back, xs, 300, func(x S, y D) {
		pts = append(pts, pt{x, y})
		w.emit(&NEvent{Op: "P", X: numOfInt(x), Y: numOfInt(y)})
	}, func(x S, y D, z S) { w.emit(&NEvent{Op: "RT", X: numOfInt(x), Y: numOfInt(y), Z: numOfInt(z)}) })
	// the same points once more as ONE ordered scan: results obtained at different positions of different small
	// blocks (whole blocks and leftovers of a blocked loop, ...) must still be ordered like their inputs
	defer func() {
		sort.Slice(pts, func(i, j int) bool {
			if pts[i].x != pts[j].x {
				return ord(pts[i].x) < ord(pts[j].x)
			}
			return ord(pts[i].y) < ord(pts[j].y)
		})
		w.start(&NEvent{Fam: "quant", Fn: fn, STy: sty, DTy: dty, Ss: b2i(isSigned[S]()), Sd: bitsOf[S](), Ds: b2i(isSigned[D]()), Dd: bitsOf[D]()})
		for i, p := range pts {
			if i > 0 && p == pts[i-1] {
				continue
			}
			w.emit(&NEvent{Op: "P", X: numOfInt(p.x), Y: numOfInt(p.y)})
		}
	}()
	// the instantiations run in parallel goroutines: a block of 300 samples converted 150 times while the other
	// formats of the same source type are being converted next door
	blk := make([]S, 1100) // longer than any plausible internal block (512, 1024)
	for i := range blk {
		blk[i] = xs[rng.Intn(len(xs))]
	}
	repeatDistinct(conv, blk, 600, func(x S, y D) {
		pts = append(pts, pt{x, y})
		w.emit(&NEvent{Op: "P", X: numOfInt(x), Y: numOfInt(y)})
	})
}

// ordered image of an integer value in uint64 (order preserving for one type)
func ord[T constraints.Integer](v T) uint64 {
	if isSigned[T]() {
		return uint64(int64(v)) ^ (1 << 63)
	}
	return uint64(v)
}

// quantExhaustive visits EVERY value of a 16- or 32-bit source type in increasing order and writes
// maximal runs on which the output is affine in the input (Seg) and on which round trip minus input is
// constant (RTSeg).
func quantExhaustive[S, D constraints.Integer](w *numWriter, conv func(*signal.Buffer[S], *signal.Buffer[D]) int, back func(*signal.Buffer[D], *signal.Buffer[S]) int) {
	sd, dd := bitsOf[S](), bitsOf[D]()
	total := uint64(1) << uint(sd)
	var lo S
	if isSigned[S]() {
		lo = S(-(int64(1) << uint(sd-1)))
	}
	const chunk = 1 << 16
	type run struct {
		x0, x1 S
		y0, y1 D
		k      uint64
		n      int
	}
	var cur run
	have := false
	segs := 0
	flush := func() {
		if !have {
			return
		}
		segs++
		if segs <= w.maxSegs {
			w.emit(&NEvent{Op: "Seg", X: numOfInt(cur.x0), X1: numOfInt(cur.x1), Y: numOfInt(cur.y0), K: numOfU64(cur.k)})
		}
		have = false
	}
	type rtrun struct {
		x0, x1 S
		d      int64
		neg    bool
	}
	var rcur rtrun
	rhave := false
	rsegs := 0
	rflush := func() {
		if !rhave {
			return
		}
		rsegs++
		if rsegs <= w.maxSegs {
			k := numOfU64(uint64(rcur.d))
			if rcur.neg {
				k[0] = 1
			}
			w.emit(&NEvent{Op: "RTSeg", X: numOfInt(rcur.x0), X1: numOfInt(rcur.x1), K: k})
		}
		rhave = false
	}
	in := make([]S, chunk)
	for base := uint64(0); base < total; base += chunk {
		for i := range in {
			in[i] = lo + S(base+uint64(i))
		}
		ys := convertSlice(conv, in)
		var zs []S
		if dd > sd {
			zs = convertSlice(back, ys)
		}
		for i, x := range in {
			y := ys[i]
			if have {
				oy, ly := ord(y), ord(cur.y1)
				if cur.n == 1 && oy >= ly {
					cur.k, cur.x1, cur.y1, cur.n = oy-ly, x, y, 2
				} else if cur.n > 1 && oy >= ly && oy-ly == cur.k {
					cur.x1, cur.y1 = x, y
					cur.n++
				} else {
					flush()
				}
			}
			if !have {
				cur = run{x0: x, x1: x, y0: y, y1: y, n: 1}
				have = true
			}
			if zs != nil {
				oz, ox := ord(zs[i]), ord(x)
				var d int64
				neg := false
				if oz >= ox {
					d = int64(oz - ox)
				} else {
					d, neg = int64(ox-oz), true
				}
				if rhave && (rcur.d != d || rcur.neg != neg) {
					rflush()
				}
				if !rhave {
					rcur = rtrun{x0: x, x1: x, d: d, neg: neg}
					rhave = true
				} else {
					rcur.x1 = x
				}
			}
		}
	}
	flush()
	rflush()
	if segs > w.maxSegs || rsegs > w.maxSegs {
		w.Capped++
	}
}
