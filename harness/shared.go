package harness

// Driver for C19: R reader goroutines use ONE shared read-only window through every read-only entry
// point while W writer goroutines write through their own Slice windows over disjoint frame ranges.
// Each goroutine records its calls' results privately (no projection, no shared harness state); after
// the join the events are written goroutine by goroutine and the final contents of every view are
// observed. The run is meant to be executed under the race detector.

import (
	"bytes"
	"encoding/json"
	"math/rand"
	"runtime"
	"sync"
)

func (w *World) fork(seed int64) (*World, *bytes.Buffer) {
	var buf bytes.Buffer
	f := &World{Views: append([]View(nil), w.Views...), enc: json.NewEncoder(&buf), tid: w.tid,
		OpCount: map[string]int{}, Cases: map[string]struct{}{}, NoObs: true, Stamp: seed % 100}
	return f, &buf
}

func (w *World) join(f *World, buf *bytes.Buffer) {
	w.w.Write(buf.Bytes())
	w.Events += f.Events
	for k, v := range f.OpCount {
		w.OpCount[k] += v
	}
	for k := range f.Cases {
		w.Cases[k] = struct{}{}
	}
}

// sharedConvertBias: readers mostly convert the shared window (set for the phases with a large window).
var sharedConvertBias bool

// SharedRun performs one concurrent phase.
// mode 0: the read-only window is a plain Slice; mode 1: it was extended by AppendSample after it was sliced (its
// header changed after construction and nothing has looked at it since); mode 2: as 1 but its last frame is left
// partly filled (ragged), with the reader operations that are defined on a ragged buffer.
// mode 4: as 0, and every writer only converts a source that is one frame SHORTER than its window into the window
// (a conversion touches the common prefix and nothing beyond it) while one more goroutine per writer stores into
// that last frame through a window of its own.
func SharedRun(w *World, rng *rand.Rand, ty string, ch, roFrames, wFrames, R, W, opsPer, procs, mode int) {
	pooled := mode == 6 // the root comes from a pool allocator and nothing has been stored in it before the writers start
	if pooled {
		mode = 0
	}
	fresh := mode == 5 // the shared read-only buffer is a fresh allocation that nothing has touched, sliced or looked at
	if fresh {
		mode = 1
	}
	prefix := mode == 4
	if prefix {
		mode = 0
		if wFrames < 2 {
			wFrames = 2
		}
	}
	old := runtime.GOMAXPROCS(procs)
	defer runtime.GOMAXPROCS(old)
	w.Reset()
	// From here to the final Observe nothing but the scripted calls touches the views: the harness does not
	// project them (a projection calls BitDepth(), Len(), ... and could initialise lazily computed state before
	// the goroutines start, hiding a race on it).
	w.NoObs = true
	defer func() { w.NoObs = false }()
	total := roFrames + W*wFrames
	var root int
	if pooled {
		p := NewPool(ty, allocator(ch, total, total))
		w.AllocWith(ty, KindOf(ty), ch, total, total, func() View { return p.Get(false) })
		root = len(w.Views) - 1
	} else {
		root = w.filledRoot(ty, ch, total)
	}
	if isFloatTy(ty) && !pooled { // NaN, infinities, negative zero among the shared samples (read-only use must not "repair" them)
		fs := w.floatsFor(rng, ch*roFrames)
		fs[rng.Intn(len(fs))] = oddFloats[1] // NaN
		w.WriteFloats(root, fs)
	}
	ragged := false
	if fresh {
		w.Alloc(ty, ch, roFrames, roFrames)
	} else if mode == 0 || mode == 3 || roFrames < 2 {
		w.Slice(root, 0, roFrames)
	} else {
		w.Slice(root, 0, roFrames-1)
		n := ch
		if mode == 2 && ch > 1 {
			n = 1 + rng.Intn(ch-1)
			ragged = true
		}
		for k := 0; k < n; k++ {
			w.AppendSample(len(w.Views)-1, w.NextStamp())
		}
	}
	ro := len(w.Views) - 1
	wins := make([]int, W)
	tails := make([]int, W)
	for i := 0; i < W; i++ {
		s := roFrames + i*wFrames
		w.Slice(root, s, s+wFrames)
		wins[i] = len(w.Views) - 1
		if prefix {
			w.Slice(root, s+wFrames-1, s+wFrames)
			tails[i] = len(w.Views) - 1
		}
	}
	kt := KindOf(ty)
	// private conversion partners, allocated before the concurrent phase: readers use the shared window as the
	// source of EVERY conversion family that accepts its element type
	var convFn string
	type rconv struct {
		fn  string
		dst int
	}
	var srcFns []ConvFn
	for _, f := range ConvFns {
		if contains(f.Src, kt) && contains(f.Dst, kt) {
			convFn = f.Name
		}
		if contains(f.Src, kt) {
			srcFns = append(srcFns, f)
		}
	}
	rconvs := make([][]rconv, R)
	rdst := make([]int, R)
	for i := range rdst {
		w.Alloc(kt, ch, roFrames, roFrames)
		rdst[i] = len(w.Views) - 1
		if ty == kt {
			for _, f := range srcFns {
				w.Alloc(f.Dst[rng.Intn(len(f.Dst))], ch, roFrames, roFrames)
				rconvs[i] = append(rconvs[i], rconv{f.Name, len(w.Views) - 1})
			}
		}
	}
	wsrc := make([]int, W)
	wfn := make([]string, W) // conversion each writer uses into its window: any family and source type that fits
	for i := range wsrc {
		sty := kt
		wfn[i] = convFn
		if ty == kt {
			var opts [][2]string
			for _, f := range ConvFns {
				if contains(f.Dst, kt) {
					for _, st := range f.Src {
						opts = append(opts, [2]string{f.Name, st})
					}
				}
			}
			o := opts[rng.Intn(len(opts))]
			wfn[i], sty = o[0], o[1]
		}
		if prefix {
			wsrc[i] = w.spreadSource(sty, ch, wFrames-1) // shorter than the window: its last frame is not the converter's
		} else {
			wsrc[i] = w.spreadSource(sty, ch, wFrames+2) // longer than the window: only the window's length may be written
		}
	}
	// channel views are taken (and cached) before the concurrent phase
	for c := 0; c < ch; c++ {
		if mode == 0 || mode == 3 {
			w.ChanShape(ro, c)
		} else { // in modes 1 and 2 nothing may look at the shared window before the goroutines do: only take the view
			w.Views[ro].ChanNew(c)
		}
		for _, wi := range wins {
			w.ChanShape(wi, c)
		}
		if prefix {
			for _, ti := range tails {
				w.ChanShape(ti, c)
			}
		}
	}
	G := R + W
	if prefix {
		G += W
	}
	nviews := len(w.Views)
	type forked struct {
		f   *World
		buf *bytes.Buffer
	}
	fs := make([]forked, G)
	seeds := make([]int64, G)
	for i := range fs {
		seeds[i] = rng.Int63()
		f, b := w.fork(seeds[i])
		fs[i] = forked{f, b}
	}
	var wg sync.WaitGroup
	start := make(chan struct{})
	concurrentRecording = true
	defer func() { concurrentRecording = false }()
	for g := 0; g < G; g++ {
		wg.Add(1)
		go func(g int) {
			defer wg.Done()
			f := fs[g].f
			r := rand.New(rand.NewSource(seeds[g]))
			<-start
			if mode == 3 && g < R && len(rconvs[g]) > 0 { // burst: every reader's FIRST call is a conversion of the shared window
				rc := rconvs[g][g%len(rconvs[g])]
				f.Convert(rc.fn, ro, rc.dst)
			}
			for k := 0; k < opsPer; k++ {
				if g < R && ragged {
					l := f.Views[ro].Len()
					fr := (l + ch - 1) / ch // frames incl. the partly filled one
					switch r.Intn(5) {
					case 0:
						f.Sample(ro, r.Intn(l))
					case 1:
						f.Read(ro, kt, r.Intn(l+2))
					case 2: // a slice that ends on the partly filled frame (within capacity)
						a := r.Intn(fr + 1)
						if f.Slice(ro, a, fr) == "ok" {
							f.Drop(len(f.Views) - 1)
						}
					case 3:
						f.ChanShape(ro, r.Intn(ch))
					case 4:
						if isFloatTy(ty) {
							f.Read(ro, kt, l)
						} else {
							f.Read(ro, BuiltinTypes[r.Intn(len(BuiltinTypes))], l)
						}
					}
				} else if g < R && sharedConvertBias && len(rconvs[g]) > 0 && r.Intn(4) != 0 {
					rc := rconvs[g][r.Intn(len(rconvs[g]))]
					f.Convert(rc.fn, ro, rc.dst)
				} else if g < R {
					l := f.Views[ro].Len()
					switch r.Intn(9) {
					case 0:
						f.Sample(ro, r.Intn(l))
					case 1:
						f.Read(ro, kt, r.Intn(l+2))
					case 2:
						lens := make([]int, ch)
						nils := make([]bool, ch)
						for c := range lens {
							lens[c] = r.Intn(roFrames + 2)
						}
						f.ReadStriped(ro, kt, lens, nils)
					case 3:
						a := r.Intn(roFrames + 1)
						b := a + r.Intn(roFrames-a+1)
						if f.Slice(ro, a, b) == "ok" {
							nv := len(f.Views) - 1
							if f.Views[nv].Len() > 0 {
								f.Sample(nv, 0)
							}
							f.Drop(nv)
						}
					case 4:
						if mode == 0 || fresh {
							f.ChanSample(ro, r.Intn(ch), r.Intn(roFrames))
						} else {
							f.ReadStriped(ro, kt, make([]int, ch), make([]bool, ch))
						}
					case 5:
						if mode == 0 {
							f.ChanShape(ro, r.Intn(ch))
						} else {
							f.Read(ro, kt, 0)
						}
					case 6:
						if mode == 0 {
							f.ChanIndex(ro, r.Intn(ch), r.Intn(roFrames), 0)
						}
					case 7:
						if len(rconvs[g]) > 0 {
							rc := rconvs[g][r.Intn(len(rconvs[g]))]
							f.Convert(rc.fn, ro, rc.dst)
						}
					case 8:
						if isFloatTy(ty) { // (the shared float samples include NaN and infinities: no cross-type read)
							f.Read(ro, kt, l)
						} else {
							f.Read(ro, BuiltinTypes[r.Intn(len(BuiltinTypes))], l)
						}
					}
				} else if g >= R+W { // mode 4: the goroutine that owns the last frame of writer (g-R-W)'s window
					ti := tails[g-R-W]
					switch r.Intn(4) {
					case 0:
						f.SetSample(ti, r.Intn(ch), f.NextStamp())
					case 1:
						f.Write(ti, kt, f.stamps(1+r.Intn(ch)))
					case 2:
						f.ChanSet(ti, r.Intn(ch), 0, f.NextStamp())
					case 3:
						f.Sample(ti, r.Intn(ch))
					}
				} else if prefix { // mode 4: conversions of a shorter source into the window; reads of the converted prefix
					wi := wins[g-R]
					if wfn[g-R] != "" && ty == kt && r.Intn(4) != 0 {
						f.Convert(wfn[g-R], wsrc[g-R], wi)
					} else {
						f.Sample(wi, r.Intn(ch*(wFrames-1)))
					}
				} else {
					wi := wins[g-R]
					l := f.Views[wi].Len()
					switch r.Intn(6) {
					case 0:
						f.SetSample(wi, r.Intn(l), f.NextStamp())
					case 1:
						f.Write(wi, kt, f.stamps(r.Intn(l+2)))
					case 2:
						ins := make([][]int64, ch)
						nils := make([]bool, ch)
						for c := range ins {
							ins[c] = f.stamps(r.Intn(wFrames + 2))
						}
						f.WriteStriped(wi, kt, ins, nils)
					case 3:
						f.ChanSet(wi, r.Intn(ch), r.Intn(wFrames), f.NextStamp())
					case 4:
						if wfn[g-R] != "" && ty == kt {
							f.Convert(wfn[g-R], wsrc[g-R], wi)
						}
					case 5:
						f.Sample(wi, r.Intn(l))
					}
				}
				if r.Intn(3) == 0 {
					runtime.Gosched()
				}
			}
		}(g)
	}
	close(start)
	wg.Wait()
	for _, x := range fs {
		w.join(x.f, x.buf)
	}
	if len(w.Views) != nviews {
		panic(harnessBug("views changed during the concurrent phase"))
	}
	w.NoObs = false
	w.Observe()
}

func driveShared(s *shardSet, rng *rand.Rand, thorough bool) ([]string, map[string]int) {
	n := 24
	ops := 40
	if thorough {
		n, ops = 200, 120
	}
	types := typesFor(false)
	extra := map[string]int{}
	// the very first phase of the process: 8 readers whose first call converts the shared float window (tables or
	// scratch state built lazily by the conversions are first touched by several goroutines at once)
	SharedRun(s.Next(), rng, []string{"float64", "float32"}[rng.Intn(2)], 2, 3, 1, 8, 2, 3, 8, 3)
	extra["concurrent_phases"]++
	for i := 0; i < n; i++ {
		ty := types[i%len(types)]
		if i%4 == 3 {
			ty = []string{"float64", "float32"}[(i/4)%2]
		}
		ch := 1 + rng.Intn(4)
		R := 1 + rng.Intn(6)
		W := 1 + rng.Intn(8)
		if i%5 == 0 {
			R, W = 8, 8 // 16 goroutines
		}
		procs := []int{1, 2, 4, 16}[i%4]
		SharedRun(s.Next(), rng, ty, ch, 1+rng.Intn(4), 1+rng.Intn(3), R, W, ops, procs, i%3)
		extra["goroutines_max"] = 16
		extra["concurrent_phases"]++
	}
	// fresh shared buffers (mode 5): small allocations nobody touched before the readers start
	nf := 8
	if thorough {
		nf = 40
	}
	for i := 0; i < nf; i++ {
		SharedRun(s.Next(), rng, BuiltinTypes[(i*3)%13], 1+i%4, 1+rng.Intn(8), 1, 2+rng.Intn(7), 1, ops/2, []int{2, 4, 16}[i%3], 5)
		extra["concurrent_phases"]++
		extra["fresh_shared_phases"]++
	}
	// a LARGE shared read-only window (more than 512 / 1024 samples, not a multiple of either) that several readers
	// convert at once through every family: block-wise conversions with pooled or shared scratch
	for i, ty := range []string{"float32", "uint16", "float64", "int32"} {
		if !thorough && i >= 2 && rng.Intn(2) == 0 {
			continue
		}
		sharedConvertBias = true
		SharedRun(s.Next(), rng, ty, 2, 300+rng.Intn(300), 1, 8, 1, 24, 4, 3)
		sharedConvertBias = false
		extra["concurrent_phases"]++
		extra["large_shared_window_phases"]++
	}
	// pooled roots (mode 6): the buffer comes from a pool allocator and is first written by the concurrent writers
	for i := 0; i < 6; i++ {
		SharedRun(s.Next(), rng, BuiltinTypes[(i*5+1)%13], 1+i%3, 1+rng.Intn(3), 1+rng.Intn(3), 2, 3+rng.Intn(4), ops/2, []int{4, 16, 2}[i%3], 6)
		extra["concurrent_phases"]++
		extra["pooled_root_phases"]++
	}
	// prefix conversions (mode 4): every conversion family, common prefixes that are not multiples of 2, 4 or 8
	np := 13
	if thorough {
		np = 80
	}
	for i := 0; i < np; i++ {
		ch := 1 + (i+rng.Intn(2))%3
		wf := 2 + rng.Intn(5)
		if (ch*(wf-1))%4 == 0 {
			wf++
		}
		SharedRun(s.Next(), rng, BuiltinTypes[i%13], ch, 1+rng.Intn(2), wf, 1, 1+rng.Intn(3), ops/2, []int{2, 4, 16}[i%3], 4)
		extra["concurrent_phases"]++
		extra["prefix_conversion_phases"]++
	}
	// large windows (>= 4096 samples per writer): a conversion that splits big blocks over helper goroutines must
	// still be race-free within its own window
	for _, ty := range []string{"float64", "float32", "int16"} {
		SharedRun(s.Next(), rng, ty, 2, 2, 2048+rng.Intn(100), 2, 2, 4, 4, 0) // (not a multiple of 512 or 1024 samples)
		extra["concurrent_phases"]++
	}
	return types, extra
}

func init() { profileFns["shared"] = driveShared }
