package harness

import (
	"fmt"
	"math/rand"
	"path/filepath"
	"runtime"
	"sort"
	"sync"
	"sync/atomic"
)

// runNumProfile records the numeric scans of one family into `shards` files.
func runNumProfile(profile string, thorough bool, seed int64, out string, shards int) (*Stats, error) {
	st := &Stats{Profile: profile, Ops: map[string]int{}, Extra: map[string]int{}}
	var ws []*numWriter
	for i := 0; i < shards; i++ {
		w, err := newNumWriter(filepath.Join(out, fmt.Sprintf("%s-%02d.ndjson", profile, i)), i*100000)
		if err != nil {
			return nil, err
		}
		ws = append(ws, w)
	}
	rng := rand.New(rand.NewSource(seed*31337 + 11))
	k := 0
	next := func() *numWriter { w := ws[k%len(ws)]; k++; return w }
	fam := map[string]string{"quant": "quant", "floatfix": "floatfix", "fixfloat": "fixfloat", "floatfloat": "floatfloat"}[profile]
	switch profile {
	case "quant", "floatfix", "fixfloat", "floatfloat":
		nrand := map[string]int{"quant": 60, "floatfix": 120, "fixfloat": 60, "floatfloat": 400}[profile]
		if thorough {
			nrand *= 8
		}
		// instantiations run in parallel, each into its own memory writer (the thorough tier's exhaustive
		// 32-bit and float32 sweeps take tens of seconds each); results are appended in a fixed order
		var insts []NumInst
		for _, in := range NumInsts {
			if in.Fam == fam {
				insts = append(insts, in)
			}
		}
		mems := make([]*numWriter, len(insts))
		sem := make(chan struct{}, 4*runtime.NumCPU()) // more runnable goroutines than processors: goroutines get preempted mid-call and share per-P caches
		var wg sync.WaitGroup
		for i, in := range insts {
			mems[i] = newMemWriter(i * 1000)
			wg.Add(1)
			go func(i int, in NumInst) {
				defer wg.Done()
				sem <- struct{}{}
				defer func() { <-sem }()
				in.Run(mems[i], rand.New(rand.NewSource(seed*31337+int64(i))), nrand, thorough)
			}(i, in)
		}
		wg.Wait()
		for i := range insts {
			next().absorb(mems[i])
			st.Extra["instantiations"]++
		}
	case "depth":
		n := 4
		if thorough {
			n = 40
		}
		// the bit-depth functions are called from several goroutines at once, starting with the very first calls
		// of the process (each goroutine records its own scans into its own file)
		var wg sync.WaitGroup
		var ready int32
		for i := range ws {
			wg.Add(1)
			go func(i int) {
				defer wg.Done()
				// burst: all goroutines make their FIRST bit-depth calls of the process at the same instant (spin
				// barrier), results kept in memory and written out afterwards
				rs := make([]burstRes, 0, 64)
				atomic.AddInt32(&ready, 1)
				for atomic.LoadInt32(&ready) < int32(len(ws)) {
				}
				burst := depthBurst(i, rs)
				ws[i].start(&NEvent{Fam: "depth", Fn: "BitDepth-burst"})
				for _, e := range burst {
					ws[i].emit(e)
				}
				var part []*numWriter
				if i == 0 {
					part = []*numWriter{ws[0]}
					depthSweepPart(part, rand.New(rand.NewSource(seed*131+int64(i))), n, thorough, i, len(ws), true)
				} else {
					depthSweepPart([]*numWriter{ws[i]}, rand.New(rand.NewSource(seed*131+int64(i))), n, thorough, i, len(ws), false)
				}
			}(i)
		}
		wg.Wait()
	case "freq":
		nr, nc := 20, 40
		if thorough {
			nr, nc = 300, 200
		}
		// different rates are converted concurrently (one goroutine per file)
		rates := freqRates(rng, nr)
		var wg sync.WaitGroup
		for k := range ws {
			wg.Add(1)
			go func(k int) {
				defer wg.Done()
				for i, r := range rates {
					if i%len(ws) == k {
						freqSweep(ws[k], rand.New(rand.NewSource(seed*977+int64(i))), []float64{r}, nc)
					}
				}
			}(k)
		}
		wg.Wait()
	default:
		return nil, fmt.Errorf("unknown numeric profile %q", profile)
	}
	types := map[string]bool{}
	for _, w := range ws {
		w.close()
		if w.Events == 0 {
			continue
		}
		st.Files = append(st.Files, w.f.Name())
		st.Traces += w.Scans
		st.Events += w.Events
		st.Extra["capped_sweeps"] += w.Capped
		for op, n := range w.Ops {
			st.Ops[op] += n
		}
		for fn := range w.Fns {
			types[fn] = true
		}
	}
	st.Cases = st.Events - st.Ops["Start"]
	for t := range types {
		st.Types = append(st.Types, t)
	}
	sort.Strings(st.Types)
	return st, nil
}
