package harness

// Large shapes: lengths around powers of two and block sizes (a code path that switches strategy at a size
// threshold, processes samples in blocks, or uses a wider index type must behave like the small cases).
// Few events per trace because every event carries the full contents of every live view.

import "math/rand"

var bigLens = []int{15, 16, 17, 31, 32, 33, 63, 64, 65, 127, 128, 129, 255, 256, 257, 1000, 1023, 1024, 1025, 4095, 4096, 4097}

func bigLen(rng *rand.Rand, thorough bool, i int) int {
	if thorough {
		return bigLens[i%len(bigLens)]
	}
	return bigLens[rng.Intn(len(bigLens))]
}

// sameWidthPairs: caller-slice / buffer element types of equal width but different representation
var sameWidthPairs = [][2]string{{"float32", "int32"}, {"int32", "float32"}, {"float32", "uint32"}, {"uint32", "float32"},
	{"float64", "int64"}, {"int64", "float64"}, {"uint64", "float64"}, {"float64", "uint"}, {"int", "float64"}, {"float64", "uintptr"}}

func driveBigIO(s *shardSet, rng *rand.Rand, thorough bool) {
	for _, ty := range []string{"int16", "float32", "uint8", "int64"} { // a write that covers a whole large buffer exactly
		w := s.Next()
		w.Reset()
		ch := 1 + rng.Intn(2)
		fr := (4096 + rng.Intn(3)) / ch
		w.Alloc(ty, ch, fr, fr)
		w.Slice(0, 0, fr) // sibling view of the same storage
		w.Write(0, ty, w.stamps(ch*fr))
		w.SetSample(1, rng.Intn(ch*fr), w.NextStamp())
		w.SetSample(0, rng.Intn(ch*fr), w.NextStamp())
	}
	for _, p := range sameWidthPairs { // p[0] = caller slice type, p[1] = buffer type
		w := s.Next()
		w.Reset()
		ch := 1 + rng.Intn(2)
		l := (64 + rng.Intn(70)) / ch
		b := w.filledRoot(p[1], ch, l+1)
		m := w.Views[b].Len()
		w.Write(b, p[0], w.stamps(m))
		w.Read(b, p[0], m)
		w.Write(b, p[0], w.stamps(m-3))
	}
	n := 26
	if thorough {
		n = 13 * len(bigLens)
	}
	for i := 0; i < n; i++ {
		ty := BuiltinTypes[i%13]
		sty := BuiltinTypes[(i*5+3)%13]
		ch := 1 + rng.Intn(4)
		l := bigLen(rng, thorough, i) / ch
		w := s.Next()
		w.Reset()
		root := w.filledRoot(ty, ch, l+3)
		w.Slice(root, 1, 1+l)
		b := len(w.Views) - 1
		m := w.Views[b].Len()
		for _, k := range []int{m - 1, m, m + 1, m / 2} {
			if k < 0 {
				continue
			}
			w.Write(b, sty, w.stamps(k))
			w.Read(b, sty, k)
		}
		ins := make([][]int64, ch)
		nils := make([]bool, ch)
		lens := make([]int, ch)
		for c := range ins {
			ins[c] = w.stamps(l - c%2)
			lens[c] = l - (c+1)%2
		}
		w.WriteStriped(b, sty, ins, nils)
		w.ReadStriped(b, sty, lens, nils)
	}
}

func driveBigConvert(s *shardSet, rng *rand.Rand, thorough bool) {
	driveWideningSeries(s, rng)
	k := 0
	for _, f := range ConvFns {
		for _, sty := range f.Src {
			for _, dty := range f.Dst {
				k++
				if !thorough && k%6 != 0 {
					continue
				}
				ch := 1 + rng.Intn(3)
				l := bigLen(rng, thorough, k) / ch
				w := s.Next()
				w.Reset()
				src := w.spreadSource(sty, ch, l+1)
				if l > 2 {
					w.SetSample(src, rng.Intn(w.Views[src].Len()), 0)
				}
				w.Slice(src, 1, 1+l)
				sv := len(w.Views) - 1
				d := w.filledRoot(dty, ch, l+2)
				w.Slice(d, 0, l+1) // destination longer than the source by one frame
				w.Convert(f.Name, sv, len(w.Views)-1)
				w.Slice(d, 1, l) // destination shorter than the source
				w.Convert(f.Name, sv, len(w.Views)-1)
			}
		}
	}
}

// driveWideningSeries: one long (>= 256 samples) 8- or 16-bit source converted into EVERY admissible destination
// type one after another (a table or scale cached "between the calls" must not leak from one format to the next).
func driveWideningSeries(s *shardSet, rng *rand.Rand) {
	for _, sty := range []string{"uint8", "int8", "uint16", "int16", "float32"} {
		for _, f := range ConvFns {
			if !contains(f.Src, sty) {
				continue
			}
			w := s.Next()
			w.Reset()
			src := w.spreadSource(sty, 1, 256+rng.Intn(64))
			order := rng.Perm(len(f.Dst))
			for _, di := range order {
				w.Alloc(f.Dst[di], 1, w.Views[src].Length(), w.Views[src].Length())
				d := len(w.Views) - 1
				w.Convert(f.Name, src, d)
				w.Drop(d)
			}
		}
	}
}

func driveBigAppend(s *shardSet, rng *rand.Rand, thorough bool) {
	n := 26
	if thorough {
		n = 13 * len(bigLens)
	}
	for i := 0; i < n; i++ {
		ty := BuiltinTypes[i%13]
		ch := 1 + rng.Intn(4)
		l := bigLen(rng, thorough, i) / ch
		w := s.Next()
		w.Reset()
		base := w.filledRoot(ty, ch, 2*l+2)
		w.Slice(base, 1, 1+l/2) // destination window with a lot of spare capacity
		dst := len(w.Views) - 1
		src := w.filledRoot(ty, ch, l)
		w.Append(dst, src) // fits
		w.Append(dst, src) // may or may not fit
		w.Append(dst, src) // grows
		w.Append(dst, dst) // self
		if n := w.Views[dst].Len(); n > 0 {
			w.SetSample(dst, n-1, w.NextStamp())
		}
		for j := 0; j < ch+1; j++ {
			w.AppendSample(dst, w.NextStamp())
		}
		// slicing far into a large buffer
		c := w.Views[base].Capacity()
		a := rng.Intn(c + 1)
		b := a + rng.Intn(c-a+1)
		if w.Slice(base, a, b) == "ok" {
			v := len(w.Views) - 1
			if n := w.Views[v].Len(); n > 0 {
				w.SetSample(v, n-1, w.NextStamp())
			}
			for ci := 0; ci < ch && w.Views[v].Length() > 0; ci++ {
				w.ChanSet(v, ci, w.Views[v].Length()-1, w.NextStamp())
				w.ChanIndex(v, ci, w.Views[v].Length()-1, 0)
			}
		}
	}
}

// wideChannels: channel counts around word sizes and small index types (a per-channel bit set, an 8-bit channel
// index, a fixed-size scratch array ... must behave like two channels).
var wideChannels = []int{9, 17, 33, 63, 64, 65, 66, 127, 129, 255, 256, 257, 1000}

// driveWideFrames: buffers with many channels and two or three frames; every operation that iterates over channels.
func driveWideFrames(s *shardSet, rng *rand.Rand, thorough bool) {
	// many channels AND many frames, neither a multiple of 16 (or 8): full-length striped writes and reads (a tiled
	// transpose must also do the ragged right and bottom edges and the corner)
	for i, sh := range [][2]int{{17, 17}, {33, 18}, {19, 35}, {9, 41}} {
		if !thorough && i >= 2 && rng.Intn(2) == 0 {
			continue
		}
		ch, fr := sh[0], sh[1]
		ty := BuiltinTypes[(i*5+rng.Intn(13))%13]
		kt := KindOf(ty)
		w := s.Next()
		w.Reset()
		w.Alloc(ty, ch, fr, fr)
		w.Write(0, kt, w.stamps(ch*fr)) // old contents
		rows := make([][]int64, ch)
		lens := make([]int, ch)
		for c := range rows {
			rows[c] = w.stamps(fr)
			lens[c] = fr
		}
		w.WriteStriped(0, kt, rows, make([]bool, ch))
		w.ReadStriped(0, kt, lens, make([]bool, ch))
	}
	for i, ch := range wideChannels {
		if !thorough && !(ch == 65 || ch == 257 || rng.Intn(3) == 0) {
			continue
		}
		ty := BuiltinTypes[(i*4+rng.Intn(13))%13]
		kt := KindOf(ty)
		w := s.Next()
		w.Reset()
		w.Alloc(ty, ch, 2, 3)
		w.Slice(0, 1, 3) // window over frames 1..2
		rows := make([][]int64, ch)
		nils := make([]bool, ch)
		lens := make([]int, ch)
		for c := range rows {
			rows[c] = w.stamps(2 - (c%5)/4)
			lens[c] = 1 + c%3
			if c%7 == 6 {
				nils[c] = true
			}
		}
		w.WriteStriped(0, kt, rows, nils)
		w.ReadStriped(0, kt, lens, nils)
		w.ReadStriped(1, kt, lens, nils)
		w.Write(1, kt, w.stamps(ch+3))
		w.Read(0, kt, 2*ch+1)
		for _, c := range []int{0, 7, 8, 31, 32, 62, 63, 64, 65, 127, 128, 254, 255, 256, ch - 1} {
			if c < ch {
				w.ChanSet(0, c, 1, w.NextStamp())
				w.ChanSample(1, c, 0)
				w.ChanIndex(0, c, 1, c)
			}
		}
		for k := 0; k < 3; k++ {
			w.AppendSample(0, w.NextStamp())
		}
		w.Alloc(ty, ch, 1, 1)
		src := len(w.Views) - 1
		w.Write(src, kt, w.stamps(ch))
		w.Append(1, src) // window is full: moves
		w.Alloc(ty, ch, 0, 4)
		d := len(w.Views) - 1
		w.Append(d, 0)
		w.Append(d, src)
	}
}

// ConvertBig: one conversion between two standalone buffers that are too large to be logged in full. The source
// holds a pattern of period p whose values are spread over its format; the destination starts dirty (period 27).
// The harness only COMPRESSES the outcome (it states no expectation): the first min(p, n) destination samples, the
// first position < n whose result differs from the result at the same phase of the pattern (-1: none), the first
// position >= n that no longer holds its dirty value (-1), the first source position that changed (-1), and the
// returned count. SignalTrace decides: count = min frames, no such positions, results are a function of the source
// value.
func (w *World) ConvertBig(fn, sty, dty string, ch, ns, nd, p int) {
	src, dst := NewView(sty, allocator(ch, ns, ns)), NewView(dty, allocator(ch, nd, nd))
	const q = 27
	if isFloatTy(sty) {
		fs := make([]float64, ch*ns)
		for i := range fs {
			fs[i] = float64(i%p)/float64(p)*2.5 - 1.25 // reaches beyond [-1, 1] on both sides
		}
		src.WriteF64(fs)
	} else {
		b := uint(kindBits(sty) - 8)
		sv := make([]int64, ch*ns)
		for i := range sv {
			k := int64(i % p)
			if kindClass(KindOf(sty)) == "Signed" {
				k -= int64(p / 2)
			}
			sv[i] = k << b
		}
		src.Write(KindOf(sty), sv)
	}
	dv := make([]int64, ch*nd)
	for i := range dv {
		dv[i] = int64(101 + i%q)
	}
	dst.Write(KindOf(dty), dv)
	before, _ := src.Data()
	cnt := -1
	res := run(func() { cnt = Convert(fn, src, dst) })
	allocs := lastAllocs // (measuring mode only: mallocs during the library call; -1 otherwise)
	got, _ := dst.Data()
	after, _ := src.Data()
	n := len(before)
	if len(got) < n {
		n = len(got)
	}
	badP, badT, badS := -1, -1, -1
	for i := 0; i < n; i++ {
		if got[i] != got[i%p] {
			badP = i
			break
		}
	}
	for i := n; i < len(got); i++ {
		if got[i] != dv[i] {
			badT = i
			break
		}
	}
	for i := range before {
		if after[i] != before[i] {
			badS = i
			break
		}
	}
	k := p
	if n < k {
		k = n
	}
	saved := w.NoObs
	w.NoObs = true // standalone buffers: the world's views are not involved
	w.emit(&Event{Op: "ConvertBig", Fn: fn, Ty: sty + ">" + dty, Args: []int{ch, ns, nd, p}, In: append([]int64{}, before[:k]...),
		Vals: append([]int64{}, got[:k]...), Lens: []int{badP, badT, badS}, Res: res, Cnt: cnt, Allocs: allocs})
	w.NoObs = saved
}

// driveConvertBig: every conversion family once at 2^17 + a few samples (both "destination longer" and "destination
// shorter"), two families at 2^20 + a few.
func driveConvertBig(s *shardSet, rng *rand.Rand, thorough bool) {
	k := 0
	for _, f := range ConvFns {
		reps := 1
		if thorough {
			reps = 4
		}
		for r := 0; r < reps; r++ {
			k++
			sty, dty := f.Src[rng.Intn(len(f.Src))], f.Dst[rng.Intn(len(f.Dst))]
			ch := 1 + rng.Intn(3)
			fr := (1<<17)/ch + 1 + rng.Intn(3)
			if k%4 == 0 || (thorough && r == 3) {
				fr = (1<<20)/ch + 1 + rng.Intn(3)
			}
			w := s.Next()
			w.Reset()
			w.ConvertBig(f.Name, sty, dty, ch, fr, fr+1+rng.Intn(2), 97)
			w.ConvertBig(f.Name, sty, dty, ch, fr+2, fr, 89)
		}
	}
}
