package harness

// Large shapes: lengths around powers of two and block sizes (a code path that switches strategy at a size
// threshold, processes samples in blocks, or uses a wider index type must behave like the small cases).
// Few events per trace because every event carries the full contents of every live view.

import "math/rand"

var bigLens = []int{15, 16, 17, 31, 32, 33, 63, 64, 65, 127, 128, 129, 255, 256, 257, 1000, 1023, 1024, 1025, 4095, 4096, 4097}

func bigLen(rng *rand.Rand, thorough bool, i int) int {
	if thorough {
		return bigLens[i%len(bigLens)]
	}
	return bigLens[rng.Intn(len(bigLens))]
}

// sameWidthPairs: caller-slice / buffer element types of equal width but different representation
var sameWidthPairs = [][2]string{{"float32", "int32"}, {"int32", "float32"}, {"float32", "uint32"}, {"uint32", "float32"},
	{"float64", "int64"}, {"int64", "float64"}, {"uint64", "float64"}, {"float64", "uint"}, {"int", "float64"}, {"float64", "uintptr"}}

func driveBigIO(s *shardSet, rng *rand.Rand, thorough bool) {
	for _, ty := range []string{"int16", "float32", "uint8", "int64"} { // a write that covers a whole large buffer exactly
		w := s.Next()
		w.Reset()
		ch := 1 + rng.Intn(2)
		fr := (4096 + rng.Intn(3)) / ch
		w.Alloc(ty, ch, fr, fr)
		w.Slice(0, 0, fr) // sibling view of the same storage
		w.Write(0, ty, w.stamps(ch*fr))
		w.SetSample(1, rng.Intn(ch*fr), w.NextStamp())
		w.SetSample(0, rng.Intn(ch*fr), w.NextStamp())
	}
	for _, p := range sameWidthPairs { // p[0] = caller slice type, p[1] = buffer type
		w := s.Next()
		w.Reset()
		ch := 1 + rng.Intn(2)
		l := (64 + rng.Intn(70)) / ch
		b := w.filledRoot(p[1], ch, l+1)
		m := w.Views[b].Len()
		w.Write(b, p[0], w.stamps(m))
		w.Read(b, p[0], m)
		w.Write(b, p[0], w.stamps(m-3))
	}
	n := 26
	if thorough {
		n = 13 * len(bigLens)
	}
	for i := 0; i < n; i++ {
		ty := BuiltinTypes[i%13]
		sty := BuiltinTypes[(i*5+3)%13]
		ch := 1 + rng.Intn(4)
		l := bigLen(rng, thorough, i) / ch
		w := s.Next()
		w.Reset()
		root := w.filledRoot(ty, ch, l+3)
		w.Slice(root, 1, 1+l)
		b := len(w.Views) - 1
		m := w.Views[b].Len()
		for _, k := range []int{m - 1, m, m + 1, m / 2} {
			if k < 0 {
				continue
			}
			w.Write(b, sty, w.stamps(k))
			w.Read(b, sty, k)
		}
		ins := make([][]int64, ch)
		nils := make([]bool, ch)
		lens := make([]int, ch)
		for c := range ins {
			ins[c] = w.stamps(l - c%2)
			lens[c] = l - (c+1)%2
		}
		w.WriteStriped(b, sty, ins, nils)
		w.ReadStriped(b, sty, lens, nils)
	}
}

func driveBigConvert(s *shardSet, rng *rand.Rand, thorough bool) {
	driveWideningSeries(s, rng)
	k := 0
	for _, f := range ConvFns {
		for _, sty := range f.Src {
			for _, dty := range f.Dst {
				k++
				if !thorough && k%6 != 0 {
					continue
				}
				ch := 1 + rng.Intn(3)
				l := bigLen(rng, thorough, k) / ch
				w := s.Next()
				w.Reset()
				src := w.spreadSource(sty, ch, l+1)
				if l > 2 {
					w.SetSample(src, rng.Intn(w.Views[src].Len()), 0)
				}
				w.Slice(src, 1, 1+l)
				sv := len(w.Views) - 1
				d := w.filledRoot(dty, ch, l+2)
				w.Slice(d, 0, l+1) // destination longer than the source by one frame
				w.Convert(f.Name, sv, len(w.Views)-1)
				w.Slice(d, 1, l) // destination shorter than the source
				w.Convert(f.Name, sv, len(w.Views)-1)
			}
		}
	}
}

// driveWideningSeries: one long (>= 256 samples) 8- or 16-bit source converted into EVERY admissible destination
// type one after another (a table or scale cached "between the calls" must not leak from one format to the next).
func driveWideningSeries(s *shardSet, rng *rand.Rand) {
	for _, sty := range []string{"uint8", "int8", "uint16", "int16", "float32"} {
		for _, f := range ConvFns {
			if !contains(f.Src, sty) {
				continue
			}
			w := s.Next()
			w.Reset()
			src := w.spreadSource(sty, 1, 256+rng.Intn(64))
			order := rng.Perm(len(f.Dst))
			for _, di := range order {
				w.Alloc(f.Dst[di], 1, w.Views[src].Length(), w.Views[src].Length())
				d := len(w.Views) - 1
				w.Convert(f.Name, src, d)
				w.Drop(d)
			}
		}
	}
}

func driveBigAppend(s *shardSet, rng *rand.Rand, thorough bool) {
	n := 26
	if thorough {
		n = 13 * len(bigLens)
	}
	for i := 0; i < n; i++ {
		ty := BuiltinTypes[i%13]
		ch := 1 + rng.Intn(4)
		l := bigLen(rng, thorough, i) / ch
		w := s.Next()
		w.Reset()
		base := w.filledRoot(ty, ch, 2*l+2)
		w.Slice(base, 1, 1+l/2) // destination window with a lot of spare capacity
		dst := len(w.Views) - 1
		src := w.filledRoot(ty, ch, l)
		w.Append(dst, src) // fits
		w.Append(dst, src) // may or may not fit
		w.Append(dst, src) // grows
		w.Append(dst, dst) // self
		if n := w.Views[dst].Len(); n > 0 {
			w.SetSample(dst, n-1, w.NextStamp())
		}
		for j := 0; j < ch+1; j++ {
			w.AppendSample(dst, w.NextStamp())
		}
		// slicing far into a large buffer
		c := w.Views[base].Capacity()
		a := rng.Intn(c + 1)
		b := a + rng.Intn(c-a+1)
		if w.Slice(base, a, b) == "ok" {
			v := len(w.Views) - 1
			if n := w.Views[v].Len(); n > 0 {
				w.SetSample(v, n-1, w.NextStamp())
			}
			for ci := 0; ci < ch && w.Views[v].Length() > 0; ci++ {
				w.ChanSet(v, ci, w.Views[v].Length()-1, w.NextStamp())
				w.ChanIndex(v, ci, w.Views[v].Length()-1, 0)
			}
		}
	}
}
