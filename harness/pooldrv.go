package harness

// Drivers for the pool machine: sequential histories with several buffers outstanding (C10),
// concurrent get/use/put cycles ordered by tickets (C11), foreign Puts (C15).

import (
	"bufio"
	"encoding/json"
	"fmt"
	"math/rand"
	"os"
	"path/filepath"
	"runtime"
	"runtime/debug"
	"sort"
	"sync"
	"sync/atomic"
	"time"
)

type PEvent struct {
	Op     string   `json:"op"`
	Tid    int      `json:"tid"`
	T      int64    `json:"t"`
	G      int      `json:"g"`
	ID     int      `json:"id"`
	Reused int      `json:"reused"`
	Kind   string   `json:"kind"`
	A      []int64  `json:"a"`
	Res    string   `json:"res"`
	View   *ViewObs `json:"view"`
	Before *ViewObs `json:"before"`
	Ch     int      `json:"ch"`
	L      int      `json:"l"`
	K      int      `json:"k"`
	Cap    int      `json:"cap"`
	Procs  int      `json:"procs"`
	Allocs int      `json:"allocs"`
	ptr    any      // raw buffer pointer; identities are assigned when the events are merged
	alias  any      // for a reslice: the pointer whose storage identity ptr inherits
}

func obsOf(v View) *ViewObs {
	data, _ := v.Data()
	return &ViewObs{Len: v.Len(), Cap: v.Cap(), Length: v.Length(), Capacity: v.Capacity(), Ch: v.Channels(), Bd: v.BitDepth(), Data: data}
}

var emptyObs = &ViewObs{Data: []int64{}}

type poolWriter struct {
	f      *os.File
	w      *bufio.Writer
	enc    *json.Encoder
	Events int
	Traces int
	tid    int
}

func newPoolWriter(path string, tidBase int) (*poolWriter, error) {
	f, err := os.Create(path)
	if err != nil {
		return nil, err
	}
	w := bufio.NewWriterSize(f, 1<<20)
	return &poolWriter{f: f, w: w, enc: json.NewEncoder(w), tid: tidBase}, nil
}

func (p *poolWriter) emit(e *PEvent) {
	if e.A == nil {
		e.A = []int64{}
	}
	if e.View == nil {
		e.View = emptyObs
	}
	if e.Before == nil {
		e.Before = emptyObs
	}
	e.Tid = p.tid
	if err := p.enc.Encode(e); err != nil {
		panic(err)
	}
	p.Events++
}

func (p *poolWriter) close() { p.w.Flush(); p.f.Close() }

// poolGuard runs one driver phase. Every library call a pool driver makes is one the specification allows, so a
// panic of the library that escapes the phase is an observation (a "Use" event of kind Crash with res=panic, which
// PoolTrace rejects), not a crash of the recorder; the phase ends there.
func poolGuard(pw *poolWriter, f func()) {
	defer func() {
		if r := recover(); r != nil {
			if hb, ok := r.(harnessBug); ok {
				panic("harness bug: " + string(hb))
			}
			pw.emit(&PEvent{Op: "Use", G: 1, Kind: "Crash", Res: "panic", Allocs: -1})
		}
	}()
	f()
}

// ---- sequential histories (C10) ---------------------------------------------------------------

type heldBuf struct {
	v  View
	id int
}

// PoolSequential runs one single-goroutine history on a fresh pool.
func PoolSequential(pw *poolWriter, rng *rand.Rand, ty string, ch, l, k, steps, outstanding int, measure bool) (gets, reuses int) {
	pool := NewPool(ty, allocator(ch, l, k))
	pw.tid++
	pw.Traces++
	pw.emit(&PEvent{Op: "NewPool", Kind: KindOf(ty), Ch: ch, L: l, K: k, Procs: 1, Res: "ok", Allocs: -1})
	ids := map[any]int{}
	keep := []View{} // every buffer ever seen stays referenced: addresses are never recycled
	var held []heldBuf
	var grown []View // handles that outgrew pool storage: ordinary buffers from then on, whatever happens to the pool
	stamp := int64(0)
	next := func() int64 { stamp = stamp%100 + 1; return stamp }
	stamps := func(n int) []int64 {
		o := make([]int64, n)
		for i := range o {
			o[i] = next()
		}
		return o
	}
	for s := 0; s < steps; s++ {
		r := rng.Intn(10)
		switch {
		case len(held) == 0 || (r < 3 && len(held) < outstanding):
			byValue := rng.Intn(2) == 0
			var v View
			res := run(func() { v = pool.Get(byValue) })
			if res != "ok" {
				pw.emit(&PEvent{Op: "Get", G: 1, Res: res, Allocs: -1})
				return
			}
			keep = append(keep, v)
			id, seen := ids[v.Raw()]
			if !seen {
				id = len(ids) + 1
				ids[v.Raw()] = id
			}
			gets++
			e := &PEvent{Op: "Get", G: 1, ID: id, Res: "ok", View: obsOf(v), Allocs: lastAllocs}
			if seen {
				e.Reused = 1
				reuses++
			}
			pw.emit(e)
			held = append(held, heldBuf{v, id})
		case r < 8:
			hi := rng.Intn(len(held))
			h := &held[hi]
			v := h.v
			e := &PEvent{Op: "Use", G: 1, ID: h.id, Res: "ok", Allocs: -1}
			switch rng.Intn(9) {
			case 6: // a SECOND handle on the same storage (whole-capacity slice) writes one sample; the holder keeps the first
				if v.Cap() == 0 {
					continue
				}
				alt := v.Slice(0, k)
				keep = append(keep, alt)
				i, x := rng.Intn(alt.Len()), next()
				alt.SetSample(i, x)
				e.Kind, e.A = "SetSample", []int64{int64(i), x}
			case 7: // the holder continues with a frame-0 slice; the ORIGINAL handle then outgrows its storage (moves away)
				if ch == 0 || v.Len()%ch != 0 {
					continue
				}
				fr := rng.Intn(k + 1)
				nv := v.Slice(0, fr)
				keep = append(keep, nv)
				ids[nv.Raw()] = h.id
				src := NewView(ty, allocator(ch, k+1, k+1))
				src.Write(KindOf(ty), stamps(ch*(k+1)))
				v.Append(src) // not an operation on the pooled storage any more: v now lives elsewhere
				grown = append(grown, v)
				h.v = nv
				v = nv
				e.Kind, e.A = "Slice0", []int64{int64(fr)}
			case 8: // the holder keeps only a frame-0 slice, drops every reference to the original, and a GC runs
				fr := rng.Intn(k + 1)
				nv := v.Slice(0, fr)
				delete(ids, v.Raw())
				for i := range keep {
					if keep[i] == v {
						keep[i] = nv
					}
				}
				keep = append(keep, nv)
				ids[nv.Raw()] = h.id
				h.v = nv
				v = nil
				runtime.GC()
				runtime.GC()
				time.Sleep(2 * time.Millisecond) // finalizers, if any, run on their own goroutine
				v = nv
				e.Kind, e.A = "Slice0", []int64{int64(fr)}
			case 0:
				x := next()
				v.AppendSample(x)
				e.Kind, e.A = "AppendSample", []int64{x}
			case 1:
				if v.Len() == 0 {
					continue
				}
				i, x := rng.Intn(v.Len()), next()
				v.SetSample(i, x)
				e.Kind, e.A = "SetSample", []int64{int64(i), x}
			case 2:
				if isFloatTy(ty) && rng.Intn(2) == 0 {
					n := rng.Intn(v.Len() + 2)
					fs := make([]float64, n)
					in := make([]int64, n)
					for i := range fs {
						fs[i] = oddFloats[rng.Intn(len(oddFloats))]
						in[i] = codeOf(fs[i])
					}
					v.WriteF64(fs)
					e.Kind, e.A = "Write", in
					break
				}
				in := stamps(rng.Intn(v.Len() + 2))
				v.Write(KindOf(ty), in)
				e.Kind, e.A = "Write", in
			case 3: // append a buffer, within capacity only
				room := 0
				if ch > 0 {
					room = (v.Cap() - v.Len()) / ch
				}
				if ch == 0 || v.Len()%ch != 0 || room == 0 {
					continue
				}
				// the source may be ANOTHER buffer held from this pool (equal capacities): the appended samples are
				// copied, the two buffers keep their own storage
				if oi := (hi + 1) % len(held); oi != hi && rng.Intn(2) == 0 {
					o := held[oi].v
					if o.Len() > 0 && o.Len()%ch == 0 && o.Len()/ch <= room {
						in, _ := o.Slice(0, o.Len()/ch).Data()
						in = in[:o.Len()]
						v.Append(o)
						e.Kind, e.A = "Append", in
						break
					}
				}
				n := 1 + rng.Intn(room)
				src := NewView(ty, allocator(ch, n, n))
				in := stamps(ch * n)
				src.Write(KindOf(ty), in)
				v.Append(src)
				e.Kind, e.A = "Append", in
			case 4: // reslice from frame 0: the holder continues with the slice
				fr := rng.Intn(k + 1)
				nv := v.Slice(0, fr)
				keep = append(keep, nv)
				ids[nv.Raw()] = h.id
				h.v = nv
				v = nv
				e.Kind, e.A = "Slice0", []int64{int64(fr)}
			case 5: // stamp the whole capacity
				nv := v.Slice(0, k)
				keep = append(keep, nv)
				ids[nv.Raw()] = h.id
				h.v = nv
				v = nv
				e.Kind, e.A = "Slice0", []int64{int64(k)}
				e.View = obsOf(v)
				pw.emit(e)
				in := stamps(v.Len())
				v.Write(KindOf(ty), in)
				e = &PEvent{Op: "Use", G: 1, ID: h.id, Res: "ok", Kind: "Write", A: in, Allocs: -1}
			}
			e.View = obsOf(v)
			pw.emit(e)
			// every other held buffer must be unaffected (storage never shared)
			for j := range held {
				if j != hi {
					pw.emit(&PEvent{Op: "Check", G: 1, ID: held[j].id, Res: "ok", View: obsOf(held[j].v), Allocs: -1})
				}
			}
		default:
			hi := rng.Intn(len(held))
			h := held[hi]
			byValue := rng.Intn(2) == 0
			if rng.Intn(8) == 0 && ch > 0 && h.v.Len()%ch == 0 {
				// the holder appends beyond the capacity (the buffer moves to larger storage) and then tries to put
				// it back: the total capacity differs, so Put must panic and the pool must stay as it is
				src := NewView(ty, allocator(ch, k+1, k+1))
				in := stamps(ch * (k + 1))
				src.Write(KindOf(ty), in)
				h.v.Append(src)
				pw.emit(&PEvent{Op: "Use", G: 1, ID: h.id, Kind: "AppendGrow", A: in, Cap: h.v.Cap(), Res: "ok", View: obsOf(h.v), Allocs: -1})
				res := run(func() { pool.Put(h.v, byValue) })
				pw.emit(&PEvent{Op: "Put", G: 1, ID: h.id, Res: res, Allocs: -1})
				if res == "panic" {
					pw.emit(&PEvent{Op: "Forget", G: 1, ID: h.id, Res: "ok", Allocs: -1})
				}
				held = append(held[:hi], held[hi+1:]...)
				continue
			}
			res := run(func() { pool.Put(h.v, byValue) })
			pw.emit(&PEvent{Op: "Put", G: 1, ID: h.id, Res: res, Allocs: lastAllocs})
			held = append(held[:hi], held[hi+1:]...)
			for _, g := range grown { // still usable: slicing, reading, storing (they do not belong to the pool)
				if r := run(func() {
					s := g.Slice(0, g.Length())
					if s.Len() > 0 {
						s.SetSample(0, s.Sample(0))
					}
				}); r != "ok" {
					pw.emit(&PEvent{Op: "Use", G: 1, Kind: "Crash", Res: r, Allocs: -1})
					return
				}
			}
		}
	}
	return
}

// PoolBig: get / stamp the whole capacity / put / get again immediately; the new holder writes at once and looks
// again a moment later (a clear still running in the background would wipe it).
func PoolBig(pw *poolWriter, ty string, ch, l, k, cycles int) {
	pool := NewPool(ty, allocator(ch, l, k))
	pw.tid++
	pw.Traces++
	pw.emit(&PEvent{Op: "NewPool", Kind: KindOf(ty), Ch: ch, L: l, K: k, Procs: 1, Res: "ok", Allocs: -1})
	ids := map[any]int{}
	keep := []View{}
	for c := 0; c < cycles; c++ {
		v := pool.Get(false)
		keep = append(keep, v)
		id, seen := ids[v.Raw()]
		if !seen {
			id = len(ids) + 1
			ids[v.Raw()] = id
		}
		e := &PEvent{Op: "Get", G: 1, ID: id, Res: "ok", View: obsOf(v), Allocs: -1}
		if seen {
			e.Reused = 1
		}
		pw.emit(e)
		nv := v.Slice(0, k)
		keep = append(keep, nv)
		ids[nv.Raw()] = id
		pw.emit(&PEvent{Op: "Use", G: 1, ID: id, Res: "ok", Kind: "Slice0", A: []int64{int64(k)}, View: obsOf(nv), Allocs: -1})
		in := make([]int64, nv.Len())
		for i := range in {
			in[i] = int64(1 + (i+c)%100)
		}
		nv.Write(KindOf(ty), in)
		time.Sleep(3 * time.Millisecond)
		pw.emit(&PEvent{Op: "Use", G: 1, ID: id, Res: "ok", Kind: "Write", A: in, View: obsOf(nv), Allocs: -1})
		res := run(func() { pool.Put(nv, false) })
		pw.emit(&PEvent{Op: "Put", G: 1, ID: id, Res: res, Allocs: -1})
	}
}

// PoolZero: pools whose allocator has zero channels or zero capacity (C20, C10): get / sample-append / put cycles
// never panic and every Get is the same inert buffer shape; a holder may also grow the buffer it got by appending
// a non-empty buffer (it moves to new storage and can no longer be put back) and forget it: later Gets must not
// hand that buffer out again.
func PoolZero(pw *poolWriter, rng *rand.Rand, ty string) int {
	n := 0
	for _, sh := range [][3]int{{0, 0, 0}, {0, 2, 3}, {0, 0, 3}, {2, 0, 0}, {3, 0, 0}, {1, 0, 0}} {
		pool := NewPool(ty, allocator(sh[0], sh[1], sh[2]))
		l := sh[1]
		if sh[0] == 0 {
			l = 0
		}
		pw.tid++
		pw.Traces++
		pw.emit(&PEvent{Op: "NewPool", Kind: KindOf(ty), Ch: sh[0], L: l, K: sh[2], Procs: 1, Res: "ok", Allocs: -1})
		ids := map[any]int{}
		keep := []View{}
		for c := 0; c < 6; c++ {
			var v View
			res := run(func() { v = pool.Get(c%2 == 0) })
			if res != "ok" {
				pw.emit(&PEvent{Op: "Get", G: 1, Res: res, Allocs: -1})
				break
			}
			keep = append(keep, v)
			id, seen := ids[v.Raw()]
			if !seen {
				id = len(ids) + 1
				ids[v.Raw()] = id
			}
			e := &PEvent{Op: "Get", G: 1, ID: id, Res: "ok", View: obsOf(v), Allocs: -1}
			if seen {
				e.Reused = 1
			}
			pw.emit(e)
			x := int64(1 + c)
			v.AppendSample(x)
			pw.emit(&PEvent{Op: "Use", G: 1, ID: id, Kind: "AppendSample", A: []int64{x}, Res: "ok", View: obsOf(v), Allocs: -1})
			n++
			if c%3 == 1 && sh[0] > 0 { // grow it by appending a non-empty buffer, then walk away from it
				src := NewView(ty, allocator(sh[0], 1, 1))
				in := make([]int64, sh[0])
				for i := range in {
					in[i] = int64(10 + i)
				}
				src.Write(KindOf(ty), in)
				v.Append(src)
				pw.emit(&PEvent{Op: "Use", G: 1, ID: id, Kind: "AppendGrow", A: in, Cap: v.Cap(), Res: "ok", View: obsOf(v), Allocs: -1})
				pw.emit(&PEvent{Op: "Forget", G: 1, ID: id, Res: "ok", Allocs: -1})
				continue
			}
			res = run(func() { pool.Put(v, c%2 == 1) })
			pw.emit(&PEvent{Op: "Put", G: 1, ID: id, Res: res, Allocs: -1})
		}
	}
	return n
}

// PoolForeign: Puts of buffers whose total capacity differs from the pool's must panic and modify
// nothing (C15); a following Get must still be fresh.
func PoolForeign(pw *poolWriter, rng *rand.Rand, ty string) int {
	n := 0
	for ch := 1; ch <= 4; ch++ {
		k := 1 + rng.Intn(4)
		pool := NewPool(ty, allocator(ch, rng.Intn(k+1), k))
		pw.tid++
		pw.Traces++
		pw.emit(&PEvent{Op: "NewPool", Kind: KindOf(ty), Ch: ch, L: 0, K: k, Procs: 1, Res: "ok", Allocs: -1})
		_ = pool
		pool = NewPool(ty, allocator(ch, 0, k))
		for c2 := 1; c2 <= 4; c2++ {
			for k2 := 0; k2 <= 5; k2++ {
				if c2*k2 == ch*k {
					continue
				}
				f := NewView(ty, allocator(c2, k2, k2))
				in := make([]int64, c2*k2)
				for i := range in {
					in[i] = int64(1 + (i+n)%100)
				}
				f.Write(KindOf(ty), in)
				before := obsOf(f)
				res := run(func() { pool.Put(f, rng.Intn(2) == 0) })
				pw.emit(&PEvent{Op: "PutForeign", G: 1, Cap: c2 * k2, Res: res, Before: before, View: obsOf(f), Allocs: -1})
				n++
			}
		}
		// a buffer that CAME from this pool but outgrew its capacity by a growing Append is foreign too
		{
			g := pool.Get(false)
			src := NewView(ty, allocator(ch, k+1, k+1))
			in := make([]int64, ch*(k+1))
			for i := range in {
				in[i] = int64(1 + i%100)
			}
			src.Write(KindOf(ty), in)
			g.Append(src)
			before := obsOf(g)
			res := run(func() { pool.Put(g, false) })
			pw.emit(&PEvent{Op: "PutForeign", G: 1, Cap: g.Cap(), Res: res, Before: before, View: obsOf(g), Allocs: -1})
			n++
		}
		// the pool is unharmed
		v := pool.Get(false)
		pw.emit(&PEvent{Op: "Get", G: 1, ID: 1, Res: "ok", View: obsOf(v), Allocs: -1})
	}
	return n
}

// ---- concurrent cycles (C11) --------------------------------------------------------------------

// PoolConcurrent: G goroutines x M get/use/put cycles on one pool. Events carry a ticket taken AFTER
// Get returns and BEFORE Put is called, so sorting by ticket orders every Put before the Get that
// reuses its buffer. Goroutines share nothing but the ticket counter (no harness lock that could
// hide a race from the race detector); identities are assigned from pointer equality at merge time.
// pairs: every goroutine always keeps two buffers checked out (get a, get b, put a, put b) in a tight loop and
// shares the allocator by pointer (the pattern that exposes a free list that mishandles interleaved pops and pushes).
var poolPairs bool

func PoolConcurrent(pw *poolWriter, seed int64, ty string, ch, l, k, G, M, procs int, gc bool) (gets, reuses int) {
	old := runtime.GOMAXPROCS(procs)
	defer runtime.GOMAXPROCS(old)
	pool := NewPool(ty, allocator(ch, l, k))
	var ticket int64
	logs := make([][]*PEvent, G)
	var wg sync.WaitGroup
	stop := make(chan struct{})
	if gc {
		go func() {
			for {
				select {
				case <-stop:
					return
				default:
					runtime.GC()
					runtime.GC()
					runtime.Gosched()
				}
			}
		}()
	}
	for g := 0; g < G; g++ {
		wg.Add(1)
		go func(g int) {
			defer wg.Done()
			rng := rand.New(rand.NewSource(seed*1000 + int64(g)))
			var cur View
			defer func() { // a panic of the library inside a concurrent phase is an observation, not a crash of the recorder
				if r := recover(); r != nil {
					if hb, ok := r.(harnessBug); ok {
						panic("harness bug: " + string(hb))
					}
					t := atomic.AddInt64(&ticket, 1)
					e := &PEvent{Op: "Use", G: g + 1, T: t, Kind: "Crash", Res: "panic", Allocs: -1}
					if cur != nil {
						e.ptr = cur.Raw()
					}
					logs[g] = append(logs[g], e)
				}
			}()
			byValue := g%2 == 0 && !poolPairs
			pool := pool
			if g%4 == 0 && !poolPairs {
				pool = pool.Copy() // this goroutine keeps its own copy of the allocator value for all its calls
			}
			for m := 0; m < M; m++ {
				v := pool.Get(byValue)
				t := atomic.AddInt64(&ticket, 1)
				logs[g] = append(logs[g], &PEvent{Op: "Get", G: g + 1, T: t, Res: "ok", View: obsOf(v), ptr: v.Raw(), Allocs: -1})
				// sometimes hold a second buffer and return the first one first (get a, get b, put a, ..., put b)
				if k == 0 || ch == 0 { // zero-shaped pool: sample appends are no-ops; sometimes the holder grows its buffer and keeps it
					x := int64(1 + (g*7+m)%100)
					v.AppendSample(x)
					t = atomic.AddInt64(&ticket, 1)
					logs[g] = append(logs[g], &PEvent{Op: "Use", G: g + 1, T: t, Kind: "AppendSample", A: []int64{x}, Res: "ok", View: obsOf(v), ptr: v.Raw(), Allocs: -1})
					if ch > 0 && rng.Intn(3) == 0 {
						src := NewView(ty, allocator(ch, 1, 1))
						in := make([]int64, ch)
						for i := range in {
							in[i] = x
						}
						src.Write(KindOf(ty), in)
						v.Append(src)
						t = atomic.AddInt64(&ticket, 1)
						logs[g] = append(logs[g], &PEvent{Op: "Use", G: g + 1, T: t, Kind: "AppendGrow", A: in, Cap: v.Cap(), Res: "ok", View: obsOf(v), ptr: v.Raw(), Allocs: -1})
						t = atomic.AddInt64(&ticket, 1)
						logs[g] = append(logs[g], &PEvent{Op: "Forget", G: g + 1, T: t, Res: "ok", ptr: v.Raw(), Allocs: -1})
						continue
					}
					t = atomic.AddInt64(&ticket, 1)
					e := &PEvent{Op: "Put", G: g + 1, T: t, ptr: v.Raw(), Allocs: -1}
					logs[g] = append(logs[g], e)
					e.Res = run(func() { pool.Put(v, byValue) })
					continue
				}
				var v2 View
				if poolPairs || rng.Intn(3) == 0 {
					v2 = pool.Get(byValue)
					t = atomic.AddInt64(&ticket, 1)
					logs[g] = append(logs[g], &PEvent{Op: "Get", G: g + 1, T: t, Res: "ok", View: obsOf(v2), ptr: v2.Raw(), Allocs: -1})
					y := int64(1 + (g*11+m)%100)
					v2.AppendSample(y)
					t = atomic.AddInt64(&ticket, 1)
					logs[g] = append(logs[g], &PEvent{Op: "Use", G: g + 1, T: t, Kind: "AppendSample", A: []int64{y}, Res: "ok", View: obsOf(v2), ptr: v2.Raw(), Allocs: -1})
				}
				if rng.Intn(3) == 0 {
					runtime.Gosched()
				}
				// fill with goroutine-specific stamps
				x := int64(1 + (g*7+m)%100)
				n := 1 + rng.Intn(3)
				if poolPairs {
					n = 1
				}
				for i := 0; i < n; i++ {
					switch rng.Intn(3) {
					case 0:
						v.AppendSample(x)
						t = atomic.AddInt64(&ticket, 1)
						logs[g] = append(logs[g], &PEvent{Op: "Use", G: g + 1, T: t, Kind: "AppendSample", A: []int64{x}, Res: "ok", View: obsOf(v), ptr: v.Raw(), Allocs: -1})
					case 1: // continue with the whole-capacity slice and stamp all of it
						nv := v.Slice(0, k)
						t = atomic.AddInt64(&ticket, 1)
						logs[g] = append(logs[g], &PEvent{Op: "Use", G: g + 1, T: t, Kind: "Slice0", A: []int64{int64(k)}, Res: "ok", View: obsOf(nv), ptr: nv.Raw(), alias: v.Raw(), Allocs: -1})
						v = nv
						in := make([]int64, v.Len())
						for j := range in {
							in[j] = x
						}
						v.Write(KindOf(ty), in)
						t = atomic.AddInt64(&ticket, 1)
						logs[g] = append(logs[g], &PEvent{Op: "Use", G: g + 1, T: t, Kind: "Write", A: in, Res: "ok", View: obsOf(v), ptr: v.Raw(), Allocs: -1})
					case 2:
						t = atomic.AddInt64(&ticket, 1)
						logs[g] = append(logs[g], &PEvent{Op: "Check", G: g + 1, T: t, Res: "ok", View: obsOf(v), ptr: v.Raw(), Allocs: -1})
					}
					if rng.Intn(4) == 0 {
						runtime.Gosched()
					}
				}
				t = atomic.AddInt64(&ticket, 1)
				e := &PEvent{Op: "Put", G: g + 1, T: t, ptr: v.Raw(), Allocs: -1}
				logs[g] = append(logs[g], e)
				e.Res = run(func() { pool.Put(v, byValue) })
				if v2 != nil {
					if rng.Intn(2) == 0 {
						runtime.Gosched()
					}
					t = atomic.AddInt64(&ticket, 1)
					logs[g] = append(logs[g], &PEvent{Op: "Check", G: g + 1, T: t, Res: "ok", View: obsOf(v2), ptr: v2.Raw(), Allocs: -1})
					t = atomic.AddInt64(&ticket, 1)
					e2 := &PEvent{Op: "Put", G: g + 1, T: t, ptr: v2.Raw(), Allocs: -1}
					logs[g] = append(logs[g], e2)
					e2.Res = run(func() { pool.Put(v2, byValue) })
				}
			}
		}(g)
	}
	wg.Wait()
	close(stop)
	var all []*PEvent
	for _, lg := range logs {
		all = append(all, lg...)
	}
	sort.Slice(all, func(i, j int) bool { return all[i].T < all[j].T })
	pw.tid++
	pw.Traces++
	pw.emit(&PEvent{Op: "NewPool", Kind: KindOf(ty), Ch: ch, L: l, K: k, Procs: G, Res: "ok", Allocs: -1})
	ids := map[any]int{}
	for _, e := range all {
		if e.alias != nil {
			ids[e.ptr] = ids[e.alias]
		}
		id, seen := ids[e.ptr]
		if !seen {
			id = len(ids) + 1
			ids[e.ptr] = id
		}
		e.ID = id
		if e.Op == "Get" {
			gets++
			if seen {
				e.Reused = 1
				reuses++
			}
		}
		pw.emit(e)
	}
	return
}

// PoolScriptFile / PoolScriptShape are set by the command line for the "poolscript" profile.
var (
	PoolScriptFile  string
	PoolScriptShape = [3]int{2, 1, 3}
)

func runPoolProfile(profile string, thorough bool, seed int64, out string) (*Stats, error) {
	rng := rand.New(rand.NewSource(seed*104729 + 5))
	st := &Stats{Profile: profile, Ops: map[string]int{}, Extra: map[string]int{}, Types: BuiltinTypes}
	path := filepath.Join(out, profile+"-00.ndjson")
	pw, err := newPoolWriter(path, 0)
	if err != nil {
		return nil, err
	}
	switch profile {
	case "poolseq":
		n := 2
		steps := 60
		if thorough {
			n, steps = 12, 150
		}
		for _, ty := range BuiltinTypes {
			for ch := 1; ch <= 3; ch++ {
				for rep := 0; rep < n; rep++ {
					k := 1 + rng.Intn(4)
					l := []int{0, rng.Intn(k + 1), k}[rep%3]
					poolGuard(pw, func() {
						g, r := PoolSequential(pw, rng, ty, ch, l, k, steps, 1+rep%3, false)
						st.Extra["gets"] += g
						st.Extra["reused_gets"] += r
					})
				}
			}
		}
		// twins: allocators of ONE element type whose totals (channels x length, channels x capacity) agree while their
		// channel counts differ, used one after the other in this process: each pool hands out its own shape only
		for i, ty := range []string{"int16", "float64", "uint8"} {
			for _, sh := range [][3]int{{2, 3, 6}, {3, 2, 4}, {1, 6, 12}, {6, 1, 2}} {
				poolGuard(pw, func() {
					g, r := PoolSequential(pw, rng, ty, sh[0], sh[1], sh[2], 25+i, 2, false)
					st.Extra["gets"] += g
					st.Extra["reused_gets"] += r
				})
			}
		}
		// buffers of 2^16 samples and more: stamped over the whole capacity, put back and taken out again at once
		for _, sh := range []struct {
			ty       string
			ch, l, k int
		}{{"int16", 1, 0, 1 << 16}, {"float64", 2, 7, 1<<15 + 3}} {
			poolGuard(pw, func() { PoolBig(pw, sh.ty, sh.ch, sh.l, sh.k, 3) })
		}
	case "poolcycle":
		EnableMeasure()
		debug.SetGCPercent(-1)
		for i, ty := range BuiltinTypes {
			poolGuard(pw, func() { PoolCycles(pw, ty, 1+i%4, i%3, 2+i%5, 40) })
			st.Extra["cycles"] += 40
		}
		// larger pools (total capacity >= 256, up to thousands of samples)
		for i, sh := range [][3]int{{1, 0, 256}, {2, 16, 512}, {3, 0, 1000}, {1, 255, 255}, {8, 0, 400}} {
			poolGuard(pw, func() { PoolCycles(pw, BuiltinTypes[(i*3)%13], sh[0], sh[1], sh[2], 10) })
			st.Extra["cycles"] += 10
		}
		// buffers of 64 KiB .. 1 MiB (a pool that declines to keep big buffers allocates on every Get)
		for _, sh := range []struct {
			ty       string
			ch, l, k int
		}{{"int64", 1, 0, 1<<13 + 1}, {"float32", 2, 0, 1 << 14}, {"uint64", 2, 8, 1 << 15}, {"int8", 1, 0, 1 << 20}} {
			poolGuard(pw, func() { PoolCycles(pw, sh.ty, sh.ch, sh.l, sh.k, 4) })
			st.Extra["cycles"] += 4
		}
	case "poolscript":
		n, g, r, err := PoolScripts(pw, PoolScriptFile, BuiltinTypes[int(seed)%13], PoolScriptShape[0], PoolScriptShape[1], PoolScriptShape[2])
		if err != nil {
			return nil, err
		}
		st.Extra["scripts"], st.Extra["gets"], st.Extra["reused_gets"] = n, g, r
	case "poolzero":
		for _, ty := range typesFor(false) {
			poolGuard(pw, func() { st.Extra["zero_pool_cycles"] += PoolZero(pw, rng, ty) })
		}
	case "poolforeign":
		for _, ty := range BuiltinTypes {
			poolGuard(pw, func() { st.Extra["foreign_puts"] += PoolForeign(pw, rng, ty) })
		}
	case "poolconc":
		type cfg struct{ G, M, P int }
		cfgs := []cfg{{2, 300, 1}, {8, 100, 4}, {64, 12, 16}, {16, 50, 2}}
		if thorough {
			cfgs = []cfg{{2, 2000, 1}, {8, 500, 4}, {64, 100, 16}, {64, 100, 2}, {16, 300, 16}, {32, 200, 8}, {3, 1500, 3}}
		}
		for i, c := range cfgs {
			ty := BuiltinTypes[(i*5+int(seed))%len(BuiltinTypes)]
			if i%2 == 1 { // named element types (first allocations of a type happen concurrently)
				ty = NamedTypes[(i*3+int(seed))%len(NamedTypes)]
			}
			ch, k := 1+i%3, 2+i%3
			l := []int{0, 1, k}[i%3]
			g, r := PoolConcurrent(pw, seed+int64(i), ty, ch, l, k, c.G, c.M, c.P, i%2 == 1)
			st.Extra["gets"] += g
			st.Extra["reused_gets"] += r
			st.Extra[fmt.Sprintf("G%d_M%d_P%d", c.G, c.M, c.P)] = g
		}
		// twins (see poolseq): same element type, equal totals, different channel counts, one after the other
		for i, sh := range [][3]int{{3, 16, 32}, {2, 24, 48}, {4, 12, 24}} {
			g, r := PoolConcurrent(pw, seed+30+int64(i), "int32", sh[0], sh[1], sh[2], 6, 40, 4, false)
			st.Extra["gets"] += g
			st.Extra["reused_gets"] += r
			st.Extra[fmt.Sprintf("twin_%d", i)] = g
		}
		// zero-shaped pools (no capacity / no channels) shared by 8 goroutines
		for i, sh := range [][3]int{{2, 0, 0}, {0, 0, 3}} {
			g, r := PoolConcurrent(pw, seed+70+int64(i), []string{"int32", "float64"}[i], sh[0], sh[1], sh[2], 8, 60, 8, false)
			st.Extra["gets"] += g
			st.Extra["reused_gets"] += r
			st.Extra[fmt.Sprintf("zero_shape_%d", i)] = g
		}
		// pairs: 8 goroutines that always hold two buffers, tight loop, allocator shared by pointer
		poolPairs = true
		{
			g, r := PoolConcurrent(pw, seed+50, "int64", 1, 0, 4, 8, map[bool]int{false: 600, true: 6000}[thorough], 8, false)
			st.Extra["gets"] += g
			st.Extra["reused_gets"] += r
			st.Extra["pairs_G8"] = g
		}
		poolPairs = false
		// large buffers (>= 2^16 samples) with processor counts that do not divide the capacity
		for i, pc := range []int{3, 7} {
			g, r := PoolConcurrent(pw, seed+100+int64(i), []string{"int16", "MyFloat32"}[i], 2, 0, 32768, 3, 4, pc, false)
			st.Extra["gets"] += g
			st.Extra["reused_gets"] += r
			st.Extra[fmt.Sprintf("big_P%d", pc)] = g
		}
	default:
		return nil, fmt.Errorf("unknown pool profile %q", profile)
	}
	pw.close()
	st.Files = []string{path}
	st.Traces = pw.Traces
	st.Events = pw.Events
	st.Cases = pw.Events
	return st, nil
}

// PoolScripts executes TLC-generated pool behaviours (PoolGen.tla; one JSON array per line): operations name a
// buffer by the holder's slot; the real pool decides which buffer a Get returns.
func PoolScripts(pw *poolWriter, path, ty string, ch, l, k int) (scripts, gets, reuses int, err error) {
	f, err := os.Open(path)
	if err != nil {
		return 0, 0, 0, err
	}
	defer f.Close()
	sc := bufio.NewScanner(f)
	sc.Buffer(make([]byte, 1<<20), 1<<26)
	for sc.Scan() {
		var ops []genOp
		if err := json.Unmarshal(sc.Bytes(), &ops); err != nil {
			return scripts, gets, reuses, err
		}
		scripts++
		pool := NewPool(ty, allocator(ch, l, k))
		pw.tid++
		pw.Traces++
		pw.emit(&PEvent{Op: "NewPool", Kind: KindOf(ty), Ch: ch, L: l, K: k, Procs: 1, Res: "ok", Allocs: -1})
		ids := map[any]int{}
		keep := []View{}
		var held []heldBuf
		stamp := int64(0)
		next := func() int64 { stamp = stamp%100 + 1; return stamp }
		poolGuard(pw, func() {
			for _, g := range ops {
				a := g.A
				if g.K != "Get" && (len(a) == 0 || a[0] < 1 || a[0] > len(held)) {
					break
				}
				switch g.K {
				case "Get":
					v := pool.Get(scripts%2 == 0)
					keep = append(keep, v)
					id, seen := ids[v.Raw()]
					if !seen {
						id = len(ids) + 1
						ids[v.Raw()] = id
					}
					gets++
					e := &PEvent{Op: "Get", G: 1, ID: id, Res: "ok", View: obsOf(v), Allocs: -1}
					if seen {
						e.Reused = 1
						reuses++
					}
					pw.emit(e)
					held = append(held, heldBuf{v, id})
				case "Put":
					h := held[a[0]-1]
					res := run(func() { pool.Put(h.v, scripts%2 == 1) })
					pw.emit(&PEvent{Op: "Put", G: 1, ID: h.id, Res: res, Allocs: -1})
					held = append(held[:a[0]-1], held[a[0]:]...)
				default:
					h := &held[a[0]-1]
					v := h.v
					e := &PEvent{Op: "Use", G: 1, ID: h.id, Res: "ok", Kind: g.K, Allocs: -1}
					switch g.K {
					case "AppendSample":
						x := next()
						v.AppendSample(x)
						e.A = []int64{x}
					case "SetSample":
						if a[1] >= v.Len() {
							continue
						}
						x := next()
						v.SetSample(a[1], x)
						e.A = []int64{int64(a[1]), x}
					case "Write":
						in := make([]int64, a[1])
						for i := range in {
							in[i] = next()
						}
						v.Write(KindOf(ty), in)
						e.A = in
					case "Append":
						if ch == 0 || v.Len()%ch != 0 || v.Len()+ch*a[1] > v.Cap() {
							continue
						}
						src := NewView(ty, allocator(ch, a[1], a[1]))
						in := make([]int64, ch*a[1])
						for i := range in {
							in[i] = next()
						}
						src.Write(KindOf(ty), in)
						v.Append(src)
						e.A = in
					case "Slice0", "Fill":
						fr := k
						if g.K == "Slice0" {
							fr = a[1]
						}
						nv := v.Slice(0, fr)
						keep = append(keep, nv)
						ids[nv.Raw()] = h.id
						h.v, v = nv, nv
						e.Kind, e.A = "Slice0", []int64{int64(fr)}
						if g.K == "Fill" {
							e.View = obsOf(v)
							pw.emit(e)
							in := make([]int64, v.Len())
							for i := range in {
								in[i] = next()
							}
							v.Write(KindOf(ty), in)
							e = &PEvent{Op: "Use", G: 1, ID: h.id, Res: "ok", Kind: "Write", A: in, Allocs: -1}
						}
					}
					e.View = obsOf(v)
					pw.emit(e)
				}
			}
		})
	}
	return scripts, gets, reuses, sc.Err()
}
