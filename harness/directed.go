package harness

// Directed drivers: the parameter sweeps the properties' quantifiers name. They only choose what to
// call; every outcome is judged by the trace specification.

import (
	"math"
	"math/rand"
	"sync"
)

var fewNamed = []string{"MyInt8", "MyUint16", "MyInt", "MyFloat32", "MyFloat64", "MyUintptr"}

func typesFor(thorough bool) []string {
	t := append([]string{}, BuiltinTypes...)
	t = append(t, fewNamed...)
	if thorough {
		t = append(append([]string{}, BuiltinTypes...), NamedTypes...)
	}
	return t
}

// filledRoot allocates a buffer whose whole capacity holds stamps and returns its view index.
func (w *World) filledRoot(ty string, ch, k int) int {
	w.Alloc(ty, ch, k, k)
	vi := len(w.Views) - 1
	w.Write(vi, KindOf(ty), w.stamps(ch*k))
	return vi
}

// ---- C02 -----------------------------------------------------------------------------------------
func driveSlice(s *shardSet, rng *rand.Rand, thorough bool) ([]string, map[string]int) {
	types := typesFor(thorough)
	type shape struct{ ch, k, l int }
	shapes := []shape{{1, 4, 2}, {2, 3, 1}, {3, 2, 2}, {4, 2, 0}, {1, 1, 1}, {2, 4, 4}}
	if thorough {
		shapes = nil
		for ch := 1; ch <= 4; ch++ {
			for k := 0; k <= 5; k++ {
				for l := 0; l <= k; l++ {
					shapes = append(shapes, shape{ch, k, l})
				}
			}
		}
	}
	for ti, ty := range types {
		for si, sh := range shapes {
			if !thorough && (ti+si)%2 == 1 && ti >= 4 { // quick: every type, half the shapes beyond the first types
				continue
			}
			for st := -2; st <= sh.k+2; st++ {
				for en := -2; en <= sh.k+2; en++ {
					w := s.Next()
					w.Reset()
					root := w.filledRoot(ty, sh.ch, sh.k+1)
					// parent is itself a window: frames [1, 1+l) of the root, capacity k
					if w.Slice(root, 1, 1+sh.l) != "ok" {
						continue
					}
					par := len(w.Views) - 1
					if w.Slice(par, st, en) != "ok" {
						continue
					}
					child := len(w.Views) - 1
					cv := w.Views[child]
					// writes through child, parent and root are seen (or not) by the others
					if cv.Len() > 0 {
						w.SetSample(child, 0, w.NextStamp())
						w.SetSample(child, cv.Len()-1, w.NextStamp())
						if isFloatTy(ty) {
							w.signFlip(child, cv.Len()-1, -1, 0)
						}
					}
					if w.Views[par].Len() > 0 {
						w.SetSample(par, rng.Intn(w.Views[par].Len()), w.NextStamp())
					}
					w.SetSample(root, rng.Intn(w.Views[root].Len()), w.NextStamp())
					w.AppendSample(child, w.NextStamp()) // lands in the shared spare capacity
					w.AppendSample(par, w.NextStamp())
					// two slices with the same bounds taken back to back (nothing, not even the recorder's projection,
					// touches the parent in between) are two headers
					if len(w.Views) < 8 {
						w.NoObs = true
						r1 := w.Slice(par, st, en)
						r2 := w.Slice(par, st, en)
						w.NoObs = false
						if r1 == "ok" && r2 == "ok" {
							w.AppendSample(len(w.Views)-1, w.NextStamp())
							w.Drop(len(w.Views) - 1)
							w.Drop(len(w.Views) - 1)
						}
					}
					// a second slice with the SAME bounds is a header of its own; and a slice taken after the parent moved
					// to new storage windows the new storage
					if w.Slice(par, st, en) == "ok" && len(w.Views) < 9 {
						twin := len(w.Views) - 1
						w.AppendSample(twin, w.NextStamp())
						if rng.Intn(3) == 0 {
							big := w.filledRoot(ty, sh.ch, sh.k+2)
							w.Append(par, big)
							if w.Slice(par, st, en) == "ok" && w.Views[len(w.Views)-1].Len() > 0 {
								w.SetSample(len(w.Views)-1, 0, w.NextStamp())
							}
						}
					}
					// nested slicing composes
					c2 := w.Views[child].Capacity()
					a := rng.Intn(c2 + 1)
					b := a + rng.Intn(c2-a+1)
					if w.Slice(child, a, b) == "ok" {
						n := len(w.Views) - 1
						if w.Views[n].Len() > 0 {
							w.SetSample(n, 0, w.NextStamp())
						}
						w.Slice(n, 0, w.Views[n].Capacity())
						w.Write(len(w.Views)-1, KindOf(ty), w.stamps(w.Views[len(w.Views)-1].Len()))
					}
				}
			}
		}
	}
	// deep nesting walks
	n := 60
	if thorough {
		n = 1500
	}
	for i := 0; i < n; i++ {
		w := s.Next()
		w.Reset()
		ty := types[rng.Intn(len(types))]
		ch := 1 + rng.Intn(4)
		cur := w.filledRoot(ty, ch, 2+rng.Intn(10))
		for d := 0; d < 6; d++ {
			c := w.Views[cur].Capacity()
			a := rng.Intn(c + 1)
			b := a + rng.Intn(c-a+1)
			if rng.Intn(10) == 0 {
				b = c + 1 + rng.Intn(2)
			}
			if w.Slice(cur, a, b) != "ok" {
				continue
			}
			cur = len(w.Views) - 1
			any := rng.Intn(len(w.Views))
			if l := w.Views[any].Len(); l > 0 {
				w.SetSample(any, rng.Intn(l), w.NextStamp())
			}
		}
	}
	driveBigAppend(s, rng, thorough)
	return types, nil
}

// ---- C03 -----------------------------------------------------------------------------------------
func driveAppend(s *shardSet, rng *rand.Rand, thorough bool) ([]string, map[string]int) {
	types := typesFor(thorough)
	maxK := 3
	if thorough {
		maxK = 5
	}
	grew, inplace := 0, 0
	for ti, ty := range types {
		for ch := 1; ch <= 4; ch++ {
			if !thorough && (ti+ch)%2 == 1 && ti >= 3 {
				continue
			}
			for dk := 0; dk <= maxK; dk++ { // destination capacity (frames) inside a larger root
				for dl := 0; dl <= dk; dl++ {
					for sl := 0; sl <= dk+2; sl++ { // source length: empty .. far too small
						for mode := 0; mode < 3; mode++ { // 0: separate source, 1: self, 2: alias of dst window
							if mode != 0 && sl != dl {
								continue
							}
							w := s.Next()
							w.Reset()
							root := w.filledRoot(ty, ch, dk+2)
							// destination window: frames [1,1+dl) of root, capacity limited to dk by slicing a sub-root
							w.Slice(root, 0, dk+1) // still cap dk+2; make a cap-limited root via fresh alloc instead
							w.Drop(len(w.Views) - 1)
							w.Alloc(ty, ch, dk+1, dk+1)
							base := len(w.Views) - 1
							w.Write(base, KindOf(ty), w.stamps(ch*(dk+1)))
							w.Slice(base, 1, 1+dl)
							dst := len(w.Views) - 1 // capacity dk frames, spare capacity dk-dl
							var src int
							switch mode {
							case 0:
								w.Alloc(ty, ch, sl, sl+rng.Intn(2))
								src = len(w.Views) - 1
								if isFloatTy(ty) {
									w.WriteFloats(src, w.floatsFor(rng, ch*sl)) // -0, NaN, Inf, subnormal among the samples
								} else {
									w.Write(src, KindOf(ty), w.stamps(ch*sl))
								}
							case 1:
								src = dst
							case 2:
								w.Slice(base, 1, 1+dl)
								src = len(w.Views) - 1
							}
							before := w.Views[dst].Cap()
							w.Append(dst, src)
							if w.Views[dst].Cap() != before {
								grew++
							} else {
								inplace++
							}
							// later writes: through dst, through the old storage, through the source
							if l := w.Views[dst].Len(); l > 0 {
								w.SetSample(dst, l-1, w.NextStamp())
								w.SetSample(dst, 0, w.NextStamp())
							}
							w.SetSample(base, rng.Intn(w.Views[base].Len()), w.NextStamp())
							w.Write(base, KindOf(ty), w.stamps(w.Views[base].Len()))
							if l := w.Views[src].Len(); l > 0 {
								w.SetSample(src, rng.Intn(l), w.NextStamp())
							}
							// repeated appends
							for r := 0; r < 2; r++ {
								if appendJudgeable(w.Views[dst], w.Views[src]) {
									w.Append(dst, src)
								}
							}
							w.AppendSample(dst, w.NextStamp())
							if isFloatTy(ty) {
								w.AppendSampleFloat(dst, oddFloats[rng.Intn(len(oddFloats))])
								if l := w.Views[dst].Len(); l > 0 {
									w.SetSampleFloat(dst, rng.Intn(l), oddFloats[rng.Intn(len(oddFloats))])
								}
							}
						}
					}
				}
			}
		}
	}
	for _, wf := range []struct {
		ty string
		ch int
	}{{"float64", 32}, {"float32", 64}, {"int64", 16}, {"float64", 64}, {"int16", 64}, {"uint64", 48}} {
		for _, fr := range []int{1, 3, 10, 13} {
			w := s.Next()
			w.Reset()
			w.Alloc(wf.ty, wf.ch, 0, rng.Intn(2))
			src := w.filledRoot(wf.ty, wf.ch, fr)
			w.Append(0, src) // reallocates: the capacity must be whole frames
			w.Append(0, src)
			w.AppendSample(0, w.NextStamp())
		}
	}
	driveBigAppend(s, rng, thorough)
	return types, map[string]int{"appends_that_grew": grew, "appends_in_place": inplace}
}

// ---- C04 -----------------------------------------------------------------------------------------
func driveAppendSample(s *shardSet, rng *rand.Rand, thorough bool) ([]string, map[string]int) {
	types := typesFor(thorough)
	maxK := 4
	if thorough {
		maxK = 7
	}
	for _, ty := range types {
		for ch := 0; ch <= 4; ch++ {
			for k := 0; k <= maxK; k++ {
				for off := 0; off <= 2; off++ {
					if ch == 0 && (k > 1 || off > 0) {
						continue
					}
					w := s.Next()
					w.Reset()
					w.Alloc(ty, ch, 0, k+off+1) // one frame beyond the window's capacity? no: window capacity reaches the end
					root := len(w.Views) - 1
					if ch > 0 {
						w.Slice(root, 0, w.Views[root].Capacity()) // full-capacity alias observes everything
					}
					win := root
					if ch > 0 && off > 0 {
						l := rng.Intn(k + 2)
						if w.Slice(root, off, off+l) == "ok" {
							win = len(w.Views) - 1
						}
					}
					if ch > 0 && w.Views[win].Len()%ch == 0 { // a view over exactly the readable range is a header of its own
						w.Slice(win, 0, w.Views[win].Length())
					}
					calls := w.Views[win].Cap() - w.Views[win].Len() + 3 + rng.Intn(4)
					for i := 0; i < calls; i++ {
						if isFloatTy(ty) && i%2 == 0 {
							w.AppendSampleFloat(win, oddFloats[(i/2+k)%len(oddFloats)])
						} else {
							w.AppendSample(win, w.NextStamp())
						}
					}
					if isFloatTy(ty) && w.Views[root].Len() > 0 { // +0 over -0 and back, through the alias
						w.SetSampleFloat(root, 0, math.Copysign(0, -1))
						w.SetSampleFloat(root, 0, 0)
					}
					// a window that ends before the root's end: sample appends write into the frames after it
					if ch > 0 && k >= 2 {
						if w.Slice(root, 0, 1) == "ok" {
							sw := len(w.Views) - 1
							for i := 0; i < ch+1; i++ {
								w.AppendSample(sw, w.NextStamp())
							}
						}
					}
				}
			}
		}
	}
	// a buffer that was moved by a growing Append whose total length ends inside a frame, then single-sample
	// appends far beyond its capacity: the capacity it got must never change again
	for i, ty := range types {
		for ch := 2; ch <= 4; ch++ {
			if !thorough && (i+ch)%3 != 0 {
				continue
			}
			w := s.Next()
			w.Reset()
			dst := w.filledRoot(ty, ch, 1+rng.Intn(2))
			w.AppendSample(dst, w.NextStamp()) // full: no-op
			w.Alloc(ty, ch, 1, 2)
			src := len(w.Views) - 1
			w.Write(src, KindOf(ty), w.stamps(ch))
			for k := 0; k < 1+rng.Intn(ch-1); k++ {
				w.AppendSample(src, w.NextStamp())
			}
			w.Append(dst, src) // grows; total length not a whole number of frames
			for k := 0; k < 3*ch+2; k++ {
				w.AppendSample(dst, w.NextStamp())
			}
			w.Append(dst, src) // and once more from a full buffer
			for k := 0; k < ch+1; k++ {
				w.AppendSample(dst, w.NextStamp())
			}
		}
	}
	driveBigAppend(s, rng, thorough)
	return types, nil
}

// ---- C01 -----------------------------------------------------------------------------------------
func driveIO(s *shardSet, rng *rand.Rand, thorough bool) ([]string, map[string]int) {
	pairs := 0
	for si, sty := range BuiltinTypes { // caller slice element type
		for di, dty := range BuiltinTypes { // buffer element type
			pairs++
			chs := []int{1 + (si+di)%4}
			ls := []int{0, 1, 3}
			if thorough {
				chs = []int{1, 2, 3, 4}
				ls = []int{0, 1, 2, 3, 5}
			}
			bty := dty
			if (si+di)%5 == 0 { // named buffer types too
				bty = NamedTypes[di]
			}
			for _, ch := range chs {
				for _, l := range ls {
					for _, window := range []bool{false, true} {
						w := s.Next()
						w.Reset()
						var buf int
						if window {
							root := w.filledRoot(bty, ch, l+3)
							w.Slice(root, 1, 1+l) // spare capacity of 2 frames after the window
							buf = len(w.Views) - 1
						} else {
							buf = w.filledRoot(bty, ch, l+1)
							w.Slice(buf, 0, l)
							buf = len(w.Views) - 1
						}
						n := w.Views[buf].Len()
						for in := 0; in <= n+2; in++ {
							w.Write(buf, sty, w.stamps(in))
							w.Read(buf, sty, in)
						}
						w.Read(buf, sty, n+5)
						// striped: uneven, empty and nil channels
						for rep := 0; rep < 3; rep++ {
							ins := make([][]int64, ch)
							nils := make([]bool, ch)
							lens := make([]int, ch)
							for c := range ins {
								switch rng.Intn(5) {
								case 0:
									nils[c] = true
								case 1:
									ins[c] = []int64{}
								default:
									ins[c] = w.stamps(rng.Intn(l + 3))
								}
								lens[c] = rng.Intn(l + 3)
							}
							if rep == 0 { // all channels exactly full
								for c := range ins {
									ins[c], nils[c], lens[c] = w.stamps(l), false, l
								}
							}
							w.WriteStriped(buf, sty, ins, nils)
							w.ReadStriped(buf, sty, lens, nils)
							for c := 0; c < ch && l > 0; c++ {
								w.Sample(buf, ch*rng.Intn(l)+c)
							}
						}
						// a window taken from a FRESH root; the samples arrive through the root afterwards; then an uneven
						// striped write through the window (shorter channels must still be zero-filled)
						if l > 1 {
							w.Alloc(bty, ch, l+2, l+2)
							fr := len(w.Views) - 1
							w.Slice(fr, 1, 1+l)
							fw := len(w.Views) - 1
							w.Write(fr, KindOf(bty), w.stamps(ch*(l+2)))
							ins := make([][]int64, ch)
							nils := make([]bool, ch)
							for c := range ins {
								ins[c] = w.stamps(l - 1 - c%2)
							}
							if ch > 1 {
								nils[ch-1] = true
							}
							w.WriteStriped(fw, sty, ins, nils)
							w.Write(fw, sty, w.stamps(1))
						}
						// partly filled last frame (interleaved forms only)
						if ch > 1 && window {
							w.AppendSample(buf, w.NextStamp())
							m := w.Views[buf].Len()
							w.Write(buf, sty, w.stamps(m))
							w.Read(buf, sty, m)
							w.Write(buf, sty, w.stamps(m-1))
							// inputs longer than a buffer that ends inside a frame: nothing beyond Len may be touched
							w.Write(buf, sty, w.stamps(m+1))
							w.Write(buf, sty, w.stamps(m+ch+2))
							w.Read(buf, sty, m+ch+2)
						}
					}
				}
			}
		}
	}
	// values next to the limits of the 64-bit integer types, between types of the same signedness (representable
	// in both): they must come back unchanged
	for _, fam := range [][]string{{"int64", "int"}, {"uint64", "uint", "uintptr"}} {
		for _, sty := range fam {
			for _, dty := range fam {
				w := s.Next()
				w.Reset()
				w.Alloc(dty, 2, 8, 8)
				var bits []uint64
				for i := 0; i < 16; i++ {
					off := uint64(rng.Intn(1100))
					switch {
					case fam[0] == "int64" && i%2 == 0:
						bits = append(bits, uint64(1<<63-1)-off) // near MaxInt64
					case fam[0] == "int64":
						bits = append(bits, uint64(1<<63)+off) // near MinInt64
					default:
						bits = append(bits, ^uint64(0)-off) // near MaxUint64
					}
				}
				w.WriteRaw(0, sty, bits)
				w.Read(0, dty, 16)
			}
		}
	}
	driveBigIO(s, rng, thorough)
	return BuiltinTypes, map[string]int{"type_pairs": pairs}
}

// ---- C14 -----------------------------------------------------------------------------------------
func driveChannel(s *shardSet, rng *rand.Rand, thorough bool) ([]string, map[string]int) {
	types := typesFor(thorough)
	maxL := 4
	if thorough {
		maxL = 9
	}
	for ti, ty := range types {
		for ch := 1; ch <= 8; ch++ {
			if !thorough && ti >= 3 && (ti+ch)%3 != 0 {
				continue
			}
			for _, window := range []bool{false, true} {
				w := s.Next()
				w.Reset()
				l := 1 + rng.Intn(maxL)
				par := w.filledRoot(ty, ch, l+2)
				w.ChanShape(par, rng.Intn(ch)) // a view of the larger buffer exists before the window is sliced
				if window {
					w.Slice(par, 1, 1+l)
					par = len(w.Views) - 1
				}
				if isFloatTy(ty) {
					c, i := rng.Intn(ch), rng.Intn(w.Views[par].Length())
					w.signFlip(par, ch*i+c, c, i)
				}
				for c := 0; c < ch; c++ {
					w.ChanShape(par, c)
					for i := 0; i < w.Views[par].Length(); i++ {
						w.ChanIndex(par, c, i, c)
						w.ChanIndex(par, c, i, rng.Intn(ch+1))
						w.ChanSample(par, c, i)
						w.ChanSet(par, c, i, w.NextStamp())
						w.ChanSample(par, c, i)
					}
				}
				// a partly filled last frame: the views still report the PARENT's per-channel length and capacity
				if ch > 1 && w.Views[par].Len() < w.Views[par].Cap() {
					w.AppendSample(par, w.NextStamp())
					for c := 0; c < ch; c++ {
						w.ChanShape(par, c)
						w.ChanIndex(par, c, w.Views[par].Length()-1, 0)
					}
					w.ChanSample(par, 0, w.Views[par].Length()-1)
					for k := 1; k < ch; k++ {
						w.AppendSample(par, w.NextStamp())
					}
				}
				// the views were taken above; the parent now changes shape (sample appends into spare
				// capacity, then a growing append) and the SAME views must keep addressing it
				for k := 0; k < ch; k++ {
					w.AppendSample(par, w.NextStamp())
				}
				src := w.filledRoot(ty, ch, 2+rng.Intn(3))
				w.Append(par, src)
				w.Append(par, src)
				for c := 0; c < ch; c++ {
					w.ChanShape(par, c)
					for _, i := range []int{0, w.Views[par].Length() - 1, rng.Intn(w.Views[par].Length())} {
						w.ChanIndex(par, c, i, 0)
						w.ChanSet(par, c, i, w.NextStamp())
						w.ChanSample(par, c, i)
					}
				}
			}
		}
	}
	driveBigAppend(s, rng, thorough)
	return types, nil
}

// ---- C13 -----------------------------------------------------------------------------------------
func driveAlloc(s *shardSet, rng *rand.Rand, thorough bool) ([]string, map[string]int) {
	types := append(append([]string{}, BuiltinTypes...), NamedTypes...)
	cs := []int{}
	for c := 1; c <= 64; c++ {
		cs = append(cs, c)
	}
	budget := 4096
	if thorough {
		budget = 65536
	}
	for ti, ty := range types {
		for _, c := range cs {
			if !thorough && c > 8 && (c+ti)%4 != 0 { // quick: every channel count for a quarter of the types
				continue
			}
			w := s.Next()
			w.Reset()
			if c%5 == 0 && ty == KindOf(ty) { // pools of the same element type, channels and capacity exist (C13 speaks of Alloc alone)
				NewPool(ty, allocator(c, 1, 3)).Get(false)
				NewPool(ty, allocator(c, 0, 3))
			}
			for rep := 0; rep < 3; rep++ {
				maxK := budget / c
				k := rng.Intn(maxK + 1)
				if rep == 0 {
					k = rng.Intn(6)
				}
				if rep == 1 && c%5 == 0 {
					k = 3
				}
				l := rng.Intn(k + 1)
				switch rng.Intn(4) {
				case 0:
					l = 0
				case 1:
					l = k
				}
				w.Alloc(ty, c, l, k)
				a := len(w.Views) - 1
				// a second allocation; stamping one must not show in the other
				k2 := rng.Intn(4)
				w.Alloc(ty, c, k2, k2)
				w.Slice(a, 0, k)
				full := len(w.Views) - 1
				if k > 0 && c*k <= 512 {
					w.Write(full, KindOf(ty), w.stamps(c*k))
				} else if k > 0 {
					w.SetSample(full, rng.Intn(c*k), w.NextStamp())
				}
				w.Drop(full)
				w.Drop(a + 1)
				w.Drop(a)
			}
		}
	}
	// an allocation made right after another buffer outgrew its storage (its old array may be garbage but views of
	// it are alive): the fresh buffer must be zero and must not alias the old view
	for i, ty := range types {
		c := 1 + i%4
		k := 2 + rng.Intn(5)
		w := s.Next()
		w.Reset()
		x := w.filledRoot(ty, c, k)
		w.Slice(x, 0, k) // a view of the storage X is about to leave
		old := len(w.Views) - 1
		src := w.filledRoot(ty, c, 2)
		w.Append(x, src) // X moves to new storage
		for rep := 0; rep < 3; rep++ {
			k2 := 1 + rng.Intn(k)
			w.Alloc(ty, c, k2, k2)
			n := len(w.Views) - 1
			w.Write(n, KindOf(ty), w.stamps(c*k2))
			w.SetSample(old, rng.Intn(w.Views[old].Len()), w.NextStamp())
		}
	}
	driveAllocExtra(s, rng)
	return types, nil
}

// two DIFFERENT function-local types with the same name (their reflect.Type.String() is identical)
func localSample16(a [3]int) View {
	type Sample int16
	return NewViewOf[Sample]("Sample", allocator(a[0], a[1], a[2]))
}
func localSample64(a [3]int) View {
	type Sample int64
	return NewViewOf[Sample]("Sample", allocator(a[0], a[1], a[2]))
}
func localSampleF32(a [3]int) View {
	type Sample float32
	return NewViewOf[Sample]("Sample", allocator(a[0], a[1], a[2]))
}

func driveAllocExtra(s *shardSet, rng *rand.Rand) {
	// channel counts beyond 16 bits (one frame): the count must not be narrowed anywhere
	for _, ch := range []int{65535 + rng.Intn(2), 65537 + rng.Intn(3)} {
		w := s.Next()
		w.Reset()
		w.Alloc([]string{"int8", "uint8"}[rng.Intn(2)], ch, 1, 1)
		w.ChanSet(0, ch-1, 0, w.NextStamp())
		w.ChanSet(0, ch-65535, 0, w.NextStamp())
		w.Slice(0, 0, 1)
	}
	w := s.Next()
	w.Reset()
	for rep := 0; rep < 2; rep++ {
		sh := [3]int{1 + rng.Intn(3), 1, 2}
		w.AllocWith("Sample", "int16", sh[0], sh[1], sh[2], func() View { return localSample16(sh) })
		w.AllocWith("Sample", "int64", sh[0], sh[1], sh[2], func() View { return localSample64(sh) })
		w.AllocWith("Sample", "float32", sh[0], sh[1], sh[2], func() View { return localSampleF32(sh) })
	}
	// many small buffers of one type allocated by several goroutines at once: each goroutine stamps its own buffers
	// and keeps re-reading them (every event projects all of the goroutine's live views)
	var wg sync.WaitGroup
	concurrentRecording = true
	defer func() { concurrentRecording = false }()
	for g := 0; g < len(s.ws); g++ {
		wg.Add(1)
		go func(g int) {
			defer wg.Done()
			w := s.ws[g]
			r := rand.New(rand.NewSource(int64(g) + 77))
			for t := 0; t < 3; t++ {
				w.Reset()
				for i := 0; i < 40; i++ {
					c := 1 + r.Intn(4)
					k := 1 + r.Intn(64/c/2+1)
					w.Alloc("int32", c, k, k)
					v := len(w.Views) - 1
					w.Write(v, "int32", w.stamps(c*k))
					if len(w.Views) > 6 {
						w.Drop(r.Intn(len(w.Views)))
					}
				}
			}
		}(g)
	}
	wg.Wait()
	allocBurst(s)
}

// allocBurst: several goroutines allocate thousands of small buffers of one element type in a tight loop (no logging
// in between). What each buffer showed right after Alloc and what it shows at the end (after everybody stamped
// their own buffers) is kept and written afterwards as one tiny trace per buffer: Alloc (must be zero, right shape),
// Write of the owner's stamps (nobody else's may be there).
func allocBurst(s *shardSet) {
	type rec struct {
		c, k  int
		v     View
		atAl  ViewObs
		stamp []int64
	}
	const G, N = 8, 1500
	recs := make([][]rec, G)
	var wg sync.WaitGroup
	start := make(chan struct{})
	for g := 0; g < G; g++ {
		wg.Add(1)
		go func(g int) {
			defer wg.Done()
			r := rand.New(rand.NewSource(int64(g) + 991))
			out := make([]rec, 0, N)
			<-start
			for i := 0; i < N; i++ {
				c := 1 + r.Intn(4)
				k := 1 + r.Intn(64/c)
				v := NewView("int32", allocator(c, k, k))
				data, _ := v.Data()
				in := make([]int64, c*k)
				for j := range in {
					in[j] = int64(1 + (g*13+i+j)%100)
				}
				v.Write("int32", in)
				out = append(out, rec{c, k, v, ViewObs{Len: v.Len(), Cap: v.Cap(), Length: v.Length(), Capacity: v.Capacity(), Ch: v.Channels(), Bd: v.BitDepth(), Data: data}, in})
			}
			recs[g] = out
		}(g)
	}
	close(start)
	wg.Wait()
	for g := range recs {
		w := s.ws[g%len(s.ws)]
		for _, r := range recs[g] {
			w.Views = nil
			w.tid++
			w.Traces++
			w.emit(&Event{Op: "Reset", Res: "ok", Cnt: -1, Allocs: -1})
			w.emitObserved(&Event{Op: "Alloc", Args: []int{r.c, r.k, r.k}, Ty: "int32", Kind: "int32", Res: "ok", Cnt: -1, Allocs: -1}, []ViewObs{r.atAl})
			end, _ := r.v.Data()
			after := r.atAl
			after.Data = end
			w.emitObserved(&Event{Op: "Write", Args: []int{1}, Ty: "int32", In: r.stamp, Res: "ok", Cnt: r.k, Allocs: -1}, []ViewObs{after})
		}
	}
}

func init() {
	profileFns["slice"] = func(s *shardSet, rng *rand.Rand, thorough bool) ([]string, map[string]int) {
		types, extra := driveSlice(s, rng, thorough)
		driveHugeSlice(s, rng, thorough)
		return types, extra
	}
	withExtremes := func(f func(*shardSet, *rand.Rand, bool) ([]string, map[string]int)) func(*shardSet, *rand.Rand, bool) ([]string, map[string]int) {
		return func(s *shardSet, rng *rand.Rand, thorough bool) ([]string, map[string]int) {
			types, extra := f(s, rng, thorough)
			driveExtremes(s, rng, thorough)
			driveWideFrames(s, rng, thorough)
			driveBlind(s, rng, thorough)
			return types, extra
		}
	}
	profileFns["append"] = withExtremes(func(s *shardSet, rng *rand.Rand, thorough bool) ([]string, map[string]int) {
		types, extra := driveAppend(s, rng, thorough)
		driveRaggedAppend(s, rng, thorough)
		driveConcurrentAppend(s, rng, thorough)
		return types, extra
	})
	profileFns["appendsample"] = withExtremes(func(s *shardSet, rng *rand.Rand, thorough bool) ([]string, map[string]int) {
		types, extra := driveAppendSample(s, rng, thorough)
		driveHugeSlice(s, rng, thorough)
		return types, extra
	})
	profileFns["io"] = withExtremes(driveIO)
	profileFns["channel"] = withExtremes(driveChannel)
	profileFns["alloc"] = func(s *shardSet, rng *rand.Rand, thorough bool) ([]string, map[string]int) {
		types, extra := driveAlloc(s, rng, thorough)
		driveBlind(s, rng, thorough)
		return types, extra
	}
}
