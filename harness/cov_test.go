//go:build covmeasure

package harness

import (
	"os"
	"testing"
)

func TestCovAll(t *testing.T) {
	for _, p := range []string{"io", "slice", "append", "appendsample", "convert", "exh", "hist", "alloc", "channel", "panics", "zero", "quant", "floatfix", "fixfloat", "floatfloat", "depth", "freq", "poolseq", "poolforeign", "poolconc", "poolcycle", "poolzero", "shared", "allocs"} {
		d, _ := os.MkdirTemp(os.TempDir(), "o")
		if _, err := RunProfile(p, "quick", 1, d, 2, ""); err != nil {
			t.Logf("%s: %v", p, err)
		}
		os.RemoveAll(d)
	}
}
