package harness

// Bounded-exhaustive driver (C12): from each prepared world, EVERY sequence of D operations over the
// alphabet enabled by the observable state. Paths are re-executed from scratch (the library is
// deterministic), one trace per path.

import "math/rand"

type prepared struct {
	name  string
	setup []Op
}

func preparedWorlds() []prepared {
	return []prepared{
		{"1ch-window", []Op{{K: "Alloc", Ty: "int16", A: []int{1, 2, 4}}, {K: "Slice", A: []int{0, 1, 3}}}},
		{"2ch-siblings", []Op{{K: "Alloc", Ty: "int8", A: []int{2, 1, 3}}, {K: "Slice", A: []int{0, 0, 1}}, {K: "Slice", A: []int{0, 1, 2}}}},
		{"3ch", []Op{{K: "Alloc", Ty: "int64", A: []int{3, 1, 2}}}},
		{"two-arrays", []Op{{K: "Alloc", Ty: "float64", A: []int{1, 1, 2}}, {K: "Alloc", Ty: "float64", A: []int{1, 2, 2}}, {K: "Slice", A: []int{1, 0, 1}}}},
		{"nested", []Op{{K: "Alloc", Ty: "uint8", A: []int{2, 2, 4}}, {K: "Slice", A: []int{0, 1, 3}}, {K: "Slice", A: []int{1, 1, 2}}}},
		{"full-and-empty", []Op{{K: "Alloc", Ty: "uint32", A: []int{2, 2, 2}}, {K: "Alloc", Ty: "uint32", A: []int{2, 0, 1}}}},
	}
}

// Alphabet enumerates every operation of the bounded alphabet that the observable state enables.
func Alphabet(w *World, maxViews int) []Op {
	var ops []Op
	for vi, v := range w.Views {
		c := v.Capacity()
		if len(w.Views) < maxViews {
			for s := -1; s <= c+1; s++ {
				for e := s - 1; e <= c+1; e++ {
					if e < -1 {
						continue
					}
					ops = append(ops, Op{K: "Slice", A: []int{vi, s, e}})
				}
			}
		}
		ops = append(ops, Op{K: "AppendSample", A: []int{vi, -1}})
		for i := -1; i <= v.Len(); i++ {
			ops = append(ops, Op{K: "SetSample", A: []int{vi, i, -1}})
		}
		for n := 0; n <= v.Len()+1; n++ {
			ops = append(ops, Op{K: "Write", A: []int{vi, n}, Ty: KindOf(v.Ty())})
		}
		for si, s := range w.Views {
			if appendJudgeable(v, s) {
				ops = append(ops, Op{K: "Append", A: []int{vi, si}})
			}
		}
		if len(w.Views) > 1 {
			ops = append(ops, Op{K: "Drop", A: []int{vi}})
		}
	}
	if len(w.Views) < maxViews {
		t := "int16"
		if len(w.Views) > 0 {
			t = w.Views[0].Ty()
		}
		ops = append(ops, Op{K: "Alloc", Ty: t, A: []int{1, 1, 2}}, Op{K: "Alloc", Ty: t, A: []int{2, 1, 1}})
	}
	return ops
}

// fill replaces the -1 placeholders by fresh stamps at execution time.
func (w *World) fill(op Op) Op {
	switch op.K {
	case "AppendSample":
		op.A = []int{op.A[0], int(w.NextStamp())}
	case "SetSample":
		op.A = []int{op.A[0], op.A[1], int(w.NextStamp())}
	case "Write":
		op.In = w.stamps(op.A[1])
		op.A = []int{op.A[0]}
	}
	return op
}

// Exhaustive enumerates all paths of length depth; beyond that, `extra` random continuation steps
// are sampled for a fraction of the paths (thorough tier).
func Exhaustive(s *shardSet, rng *rand.Rand, depth, maxViews int, sampleDeeper int, only map[string]bool) int {
	paths := 0
	for _, p := range preparedWorlds() {
		if only != nil && !only[p.name] {
			continue
		}
		var rec func(prefix []int)
		runPath := func(prefix []int, w *World) []Op {
			w.Reset()
			w.Stamp = 0
			for _, op := range p.setup {
				w.Do(op)
			}
			for _, k := range prefix {
				al := Alphabet(w, maxViews)
				w.Do(w.fill(al[k]))
			}
			return Alphabet(w, maxViews)
		}
		rec = func(prefix []int) {
			if len(prefix) == depth {
				w := s.Next()
				runPath(prefix, w)
				for i := 0; i < sampleDeeper; i++ {
					al := Alphabet(w, maxViews)
					w.Do(w.fill(al[rng.Intn(len(al))]))
				}
				paths++
				return
			}
			// discover the alphabet size after this prefix on a silent world
			sw := &World{Silent: true, OpCount: map[string]int{}, Cases: map[string]struct{}{}}
			n := len(runPath(prefix, sw))
			for k := 0; k < n; k++ {
				rec(append(append([]int{}, prefix...), k))
			}
		}
		rec(nil)
	}
	return paths
}
