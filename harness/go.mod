module verif/harness

go 1.21

require pipelined.dev/signal v0.0.0

require golang.org/x/exp v0.0.0-20230817173708-d852ddb80c63

replace pipelined.dev/signal => /repo
