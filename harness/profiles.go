package harness

import (
	"fmt"
	"math/rand"
	"path/filepath"
	"sort"
)

// Stats is what a recorder run reports to the orchestrator (measured, for the evidence file).
type Stats struct {
	Profile string         `json:"profile"`
	Files   []string       `json:"files"`
	Traces  int            `json:"traces"`
	Events  int            `json:"events"`
	Ops     map[string]int `json:"ops"`
	Cases   int            `json:"cases"`
	Types   []string       `json:"types"`
	Extra   map[string]int `json:"extra,omitempty"`
}

type shardSet struct {
	ws    []*World
	next  int
	files []string
}

func newShards(dir, name string, n int) (*shardSet, error) {
	s := &shardSet{}
	for i := 0; i < n; i++ {
		p := filepath.Join(dir, fmt.Sprintf("%s-%02d.ndjson", name, i))
		w, err := NewWorld(p)
		if err != nil {
			return nil, err
		}
		w.tid = i * 1000000
		s.ws = append(s.ws, w)
		s.files = append(s.files, p)
	}
	return s, nil
}

// Next returns the shard for the next trace (round robin).
func (s *shardSet) Next() *World {
	w := s.ws[s.next%len(s.ws)]
	s.next++
	return w
}

func (s *shardSet) finish(profile string, types []string) (*Stats, error) {
	st := &Stats{Profile: profile, Ops: map[string]int{}, Types: types, Extra: map[string]int{}}
	cases := map[string]struct{}{}
	for i, w := range s.ws {
		if err := w.Close(); err != nil {
			return nil, err
		}
		if w.Events == 0 {
			continue
		}
		st.Files = append(st.Files, s.files[i])
		st.Traces += w.Traces
		st.Events += w.Events
		for k, v := range w.OpCount {
			st.Ops[k] += v
		}
		for k := range w.Cases {
			cases[k] = struct{}{}
		}
	}
	st.Cases = len(cases)
	sort.Strings(st.Types)
	return st, nil
}

// RunProfile dispatches to the driver of a profile.
func RunProfile(profile, tier string, seed int64, out string, shards int, script string) (*Stats, error) {
	thorough := tier == "thorough"
	rng := rand.New(rand.NewSource(seed*7919 + 17))
	switch profile {
	case "numreplay":
		return ReplayNumeric(script, filepath.Join(out, "numreplay-00.ndjson"))
	case "genscript", "replay":
		s, err := newShards(out, profile, shards)
		if err != nil {
			return nil, err
		}
		var n int
		if profile == "genscript" {
			n, err = RunGenScripts(s, script)
		} else {
			n, err = ReplayTrace(s, script)
		}
		if err != nil {
			return nil, err
		}
		st, err := s.finish(profile, BuiltinTypes)
		if st != nil {
			st.Extra["scripts"] = n
		}
		return st, err
	case "quant", "floatfix", "fixfloat", "floatfloat", "depth", "freq":
		return runNumProfile(profile, thorough, seed, out, shards)
	case "poolseq", "poolforeign", "poolconc", "poolcycle", "poolzero", "poolscript":
		PoolScriptFile = script
		return runPoolProfile(profile, thorough, seed, out)
	case "hist":
		s, err := newShards(out, profile, shards)
		if err != nil {
			return nil, err
		}
		n, steps := 60, 120
		if thorough {
			n, steps = 600, 400
		}
		types := []string{"int8", "int16", "int64", "uint8", "uint32", "float32", "float64", "int", "uintptr"}
		for i := 0; i < n; i++ {
			o := HistOpts{Types: []string{types[i%len(types)]}, MaxViews: 6, MinCh: 1, MaxCh: 3, MaxFrames: 4,
				Steps: steps, Weights: DefaultWeights, CrossType: i%2 == 0, Blind: i%4 == 1}
			if i%3 == 2 { // larger shapes, mixed types (conversions across views)
				o.Types = types
				o.MaxCh, o.MaxFrames = 8, 24
			}
			RandomHistory(s.Next(), rng, o)
		}
		driveBigAppend(s, rng, thorough)
		driveBigIO(s, rng, thorough)
		driveExtremes(s, rng, thorough)
		driveWideFrames(s, rng, thorough)
		driveBlind(s, rng, thorough)
		return s.finish(profile, types)
	}
	if f, ok := profileFns[profile]; ok {
		s, err := newShards(out, profile, shards)
		if err != nil {
			return nil, err
		}
		types, extra := f(s, rng, thorough)
		st, err := s.finish(profile, types)
		if st != nil {
			for k, v := range extra {
				st.Extra[k] = v
			}
		}
		return st, err
	}
	return nil, fmt.Errorf("unknown profile %q", profile)
}

// profileFns: directed and exhaustive drivers; each returns the element types it covered.
var profileFns = map[string]func(s *shardSet, rng *rand.Rand, thorough bool) ([]string, map[string]int){
	"exh": func(s *shardSet, rng *rand.Rand, thorough bool) ([]string, map[string]int) {
		depth, deeper := 2, 0
		if thorough {
			deeper = 3
		}
		n := Exhaustive(s, rng, depth, 4, deeper, nil)
		extra := map[string]int{"paths": n, "depth": depth}
		if thorough { // every sequence of THREE operations from the two smallest worlds (views capped at 3)
			extra["paths_depth3"] = Exhaustive(s, rng, 3, 3, 0, map[string]bool{"3ch": true, "full-and-empty": true})
		}
		return []string{"int16", "int8", "int64", "float64", "uint8", "uint32"}, extra
	},
}
