package harness

// Re-execution of recorded numeric events (bin/check replay <file>): the inputs of the recorded points are decoded,
// the REAL function is run again on exactly those inputs, and fresh events are written for NumTrace to judge.
// Run-length records (Seg / RTSeg / Clip) are re-executed at their end points.

import (
	"bufio"
	"encoding/json"
	"fmt"
	"math"
	"math/big"
	"os"

	"golang.org/x/exp/constraints"
	"pipelined.dev/signal"
)

func bigOfNum(n []int64) *big.Int {
	v := new(big.Int)
	for i := len(n) - 1; i >= 1; i-- {
		v.Lsh(v, 15)
		v.Or(v, big.NewInt(n[i]))
	}
	if len(n) > 0 && n[0] == 1 {
		v.Neg(v)
	}
	return v
}

func intOfNum[T constraints.Integer](n []int64) T {
	b := bigOfNum(n)
	if isSigned[T]() {
		return T(b.Int64())
	}
	return T(b.Uint64())
}

func floatOfJ(f *FloatJ) float64 {
	switch f.Cls {
	case "nan":
		return math.NaN()
	case "inf":
		if f.N[0] == 1 {
			return math.Inf(-1)
		}
		return math.Inf(1)
	}
	m := bigOfNum(f.N)
	x, _ := new(big.Float).SetInt(m).Float64()
	return math.Ldexp(x, f.E)
}

func inputsInt[S constraints.Integer](evs []*NEvent) []S {
	var xs []S
	for _, e := range evs {
		xs = append(xs, intOfNum[S](e.X))
		if e.Op == "Seg" || e.Op == "RTSeg" {
			xs = append(xs, intOfNum[S](e.X1))
		}
	}
	return xs
}

func quantAgain[S, D constraints.Integer](w *numWriter, st *NEvent, evs []*NEvent, conv func(*signal.Buffer[S], *signal.Buffer[D]) int, back func(*signal.Buffer[D], *signal.Buffer[S]) int) {
	s2 := *st
	s2.Uo = 1 // the re-executed points are judged individually
	w.start(&s2)
	xs := inputsInt[S](evs)
	ys := convertSlice(conv, xs)
	var zs []S
	if bitsOf[D]() > bitsOf[S]() {
		zs = convertSlice(back, ys)
	}
	for i := range xs {
		w.emit(&NEvent{Op: "P", X: numOfInt(xs[i]), Y: numOfInt(ys[i])})
		if zs != nil {
			w.emit(&NEvent{Op: "RT", X: numOfInt(xs[i]), Y: numOfInt(ys[i]), Z: numOfInt(zs[i])})
		}
	}
}

func floatFixAgain[S constraints.Float, D constraints.Integer](w *numWriter, st *NEvent, evs []*NEvent, conv func(*signal.Buffer[S], *signal.Buffer[D]) int) {
	s2 := *st
	s2.Uo = 1
	w.start(&s2)
	var xs []S
	for _, e := range evs {
		xs = append(xs, S(floatOfJ(e.F)))
		if e.Op == "Seg" || e.Op == "Clip" {
			xs = append(xs, S(floatOfJ(e.F1)))
		}
	}
	ys := convertSlice(conv, xs)
	for i := range xs {
		w.emit(&NEvent{Op: "P", F: floatJ(float64(xs[i])), Y: numOfInt(ys[i])})
	}
}

func fixFloatAgain[S constraints.Integer, D constraints.Float](w *numWriter, st *NEvent, evs []*NEvent, conv func(*signal.Buffer[S], *signal.Buffer[D]) int, back func(*signal.Buffer[D], *signal.Buffer[S]) int) {
	// keep the scan ordered: strict monotonicity is judged between neighbouring codes
	s2 := *st
	s2.Uo = 0
	w.start(&s2)
	xs := inputsInt[S](evs)
	// for a single point also run its predecessor, so that order / injectivity can be judged again
	if len(xs) == 1 && ord(xs[0]) > ord(lowestOf[S]()) {
		xs = []S{xs[0] - 1, xs[0]}
	}
	gs := convertSlice(conv, xs)
	zs := convertSlice(back, gs)
	for i := range xs {
		if i > 0 && ord(xs[i]) <= ord(xs[i-1]) {
			w.start(&s2)
		}
		w.emit(&NEvent{Op: "P", X: numOfInt(xs[i]), G: floatJ(float64(gs[i]))})
		w.emit(&NEvent{Op: "RT", X: numOfInt(xs[i]), G: floatJ(float64(gs[i])), Z: numOfInt(zs[i])})
	}
}

func lowestOf[T constraints.Integer]() T {
	if isSigned[T]() {
		m := int64(-1) << uint(bitsOf[T]()-1)
		return T(m)
	}
	return 0
}

func floatFloatAgain[S, D constraints.Float](w *numWriter, st *NEvent, evs []*NEvent, conv func(*signal.Buffer[S], *signal.Buffer[D]) int) {
	w.start(st)
	var xs []S
	for _, e := range evs {
		xs = append(xs, S(floatOfJ(e.F)))
	}
	ys := convertSlice(conv, xs)
	for i := range xs {
		w.emit(&NEvent{Op: "P", F: floatJ(float64(xs[i])), G: floatJ(float64(ys[i]))})
	}
}

// depthFreqAgain re-executes BitDepth / Scale / Frequency events.
func depthFreqAgain(w *numWriter, st *NEvent, evs []*NEvent) {
	w.start(st)
	for _, e := range evs {
		bd := signal.BitDepth(e.B)
		switch e.Op {
		case "MaxS":
			w.emit(&NEvent{Op: e.Op, B: e.B, Y: numOfI64(bd.MaxSignedValue())})
		case "MinS":
			w.emit(&NEvent{Op: e.Op, B: e.B, Y: numOfI64(bd.MinSignedValue())})
		case "MaxU":
			w.emit(&NEvent{Op: e.Op, B: e.B, Y: numOfU64(bd.MaxUnsignedValue())})
		case "ClipS":
			x := intOfNum[int64](e.X)
			y := bd.SignedValue(x)
			w.emit(&NEvent{Op: e.Op, B: e.B, X: numOfI64(x), Y: numOfI64(y), Z: numOfI64(bd.SignedValue(y))})
		case "ClipU":
			x := intOfNum[uint64](e.X)
			y := bd.UnsignedValue(x)
			w.emit(&NEvent{Op: e.Op, B: e.B, X: numOfU64(x), Y: numOfU64(y), Z: numOfU64(bd.UnsignedValue(y))})
		case "Scale":
			y := scaleAgain(e.STy, e.H, e.L)
			w.emit(&NEvent{Op: "Scale", H: e.H, L: e.L, STy: e.STy, Sd: e.Sd, Ss: e.Ss, Y: y})
		case "Dur":
			r := floatOfJ(e.F)
			n := intOfNum[int64](e.X)
			w.emit(&NEvent{Op: "Dur", F: floatJ(r), X: numOfI64(n), Y: numOfI64(int64(signal.Frequency(r).Duration(int(n))))})
		case "FRT":
			r := floatOfJ(e.F)
			n := intOfNum[int64](e.X)
			d := signal.Frequency(r).Duration(int(n))
			w.emit(&NEvent{Op: "FRT", F: floatJ(r), X: numOfI64(n), Y: numOfI64(int64(d)), Z: numOfI64(int64(signal.Frequency(r).Events(d)))})
		case "Ev":
			r := floatOfJ(e.F)
			d := intOfNum[int64](e.X)
			w.emit(&NEvent{Op: "Ev", F: floatJ(r), X: numOfI64(d), Y: numOfI64(int64(signal.Frequency(r).Events(durationOf(d))))})
		}
	}
}

func scaleAgain(ty string, h, l int) []int64 {
	H, L := signal.BitDepth(h), signal.BitDepth(l)
	switch ty {
	case "int8":
		return numOfInt(signal.Scale[int8](H, L))
	case "int16":
		return numOfInt(signal.Scale[int16](H, L))
	case "int32":
		return numOfInt(signal.Scale[int32](H, L))
	case "int64":
		return numOfInt(signal.Scale[int64](H, L))
	case "int":
		return numOfInt(signal.Scale[int](H, L))
	case "uint8":
		return numOfInt(signal.Scale[uint8](H, L))
	case "uint16":
		return numOfInt(signal.Scale[uint16](H, L))
	case "uint32":
		return numOfInt(signal.Scale[uint32](H, L))
	case "uint64":
		return numOfInt(signal.Scale[uint64](H, L))
	case "uint":
		return numOfInt(signal.Scale[uint](H, L))
	}
	return numOfInt(signal.Scale[uintptr](H, L))
}

// ReplayNumeric re-executes a numeric trace file.
func ReplayNumeric(path, out string) (*Stats, error) {
	f, err := os.Open(path)
	if err != nil {
		return nil, err
	}
	defer f.Close()
	w, err := newNumWriter(out, 0)
	if err != nil {
		return nil, err
	}
	sc := bufio.NewScanner(f)
	sc.Buffer(make([]byte, 1<<20), 1<<28)
	var start *NEvent
	var evs []*NEvent
	flush := func() error {
		if start == nil || len(evs) == 0 {
			return nil
		}
		if start.Fam == "depth" || start.Fam == "freq" {
			depthFreqAgain(w, start, evs)
			return nil
		}
		for _, in := range NumInsts {
			if in.Fam == start.Fam && in.Fn == start.Fn && in.STy == start.STy && in.DTy == start.DTy {
				in.Again(w, start, evs)
				return nil
			}
		}
		return fmt.Errorf("no instantiation %s %s %s->%s", start.Fam, start.Fn, start.STy, start.DTy)
	}
	for sc.Scan() {
		e := &NEvent{}
		if err := json.Unmarshal(sc.Bytes(), e); err != nil {
			return nil, err
		}
		if e.Op == "Start" {
			if err := flush(); err != nil {
				return nil, err
			}
			start, evs = e, nil
			continue
		}
		evs = append(evs, e)
	}
	if err := flush(); err != nil {
		return nil, err
	}
	w.close()
	return &Stats{Profile: "numreplay", Files: []string{out}, Traces: w.Scans, Events: w.Events, Ops: w.Ops, Cases: w.Events, Extra: map[string]int{}}, nil
}
