package harness

import (
	"math"
	"math/rand"
	"sync"

	"pipelined.dev/signal"
)

// WriteFloats writes float64 values (exactly representable in float32) into a float-typed view; the
// event is an ordinary Write whose input values are logged as value codes.
func (w *World) WriteFloats(v int, vals []float64) {
	cnt := -1
	in := make([]int64, len(vals))
	for i, f := range vals {
		in[i] = codeOf(f)
	}
	res := run(func() { cnt = w.Views[v].WriteF64(vals) })
	w.emit(&Event{Op: "Write", Args: []int{v + 1}, Ty: "float64", In: in, Res: res, Cnt: cnt, Allocs: lastAllocs})
}

// AppendSampleFloat / SetSampleFloat: single-sample forms with an arbitrary float value (float views only).
func (w *World) AppendSampleFloat(v int, f float64) {
	res := run(func() { w.Views[v].AppendSampleF64(f) })
	w.emit(&Event{Op: "AppendSample", Args: []int{v + 1, int(codeOf(f))}, Res: res, Cnt: -1, Allocs: lastAllocs})
}

func (w *World) SetSampleFloat(v, i int, f float64) {
	res := run(func() { w.Views[v].SetSampleF64(i, f) })
	w.emit(&Event{Op: "SetSample", Args: []int{v + 1, i, int(codeOf(f))}, Res: res, Cnt: -1, Allocs: lastAllocs})
}

func (w *World) ChanSetFloat(v, c, i int, f float64) {
	res := run(func() { w.Views[v].ChanSetF64(c, i, f) })
	w.emit(&Event{Op: "ChanSet", Args: []int{v + 1, c, i, int(codeOf(f))}, Res: res, Cnt: -1, Allocs: lastAllocs})
}

// signFlip writes -0 over +0 and +0 over -0 at position i of a float view (a store must change the bits even
// when the old and new value compare equal), through SetSample and, when c >= 0, through the channel view.
func (w *World) signFlip(v, i, c, fi int) {
	nz := math.Copysign(0, -1)
	w.SetSampleFloat(v, i, 0)
	w.SetSampleFloat(v, i, nz)
	w.SetSampleFloat(v, i, 0)
	if c >= 0 {
		w.ChanSetFloat(v, c, fi, nz)
		w.ChanSetFloat(v, c, fi, 0)
		w.ChanSetFloat(v, c, fi, nz)
	}
}

// WriteRaw writes arbitrary 64-bit integer values (given as bit patterns) through Write[S, D]; the logged input
// values are the value codes of the S-typed inputs.
func (w *World) WriteRaw(v int, sty string, bits []uint64) {
	cnt := -1
	var in []int64
	res := run(func() { cnt, in = w.Views[v].WriteBits(sty, bits) })
	if in == nil {
		in = []int64{}
	}
	w.emit(&Event{Op: "Write", Args: []int{v + 1}, Ty: sty, In: in, Res: res, Cnt: cnt, Allocs: lastAllocs})
}

func writeBitsT[S, D signal.SignalTypes](bits []uint64, dst *signal.Buffer[D]) (int, []int64) {
	src := make([]S, len(bits))
	for i, b := range bits {
		src[i] = fromU64[S](b)
	}
	begin()
	n := signal.Write(src, dst)
	end()
	return n, codes(src)
}

// isFloatTy reports whether a harness element type is a floating-point type.
func isFloatTy(ty string) bool { return kindClass(KindOf(ty)) == "Float" }

// oddFloats: values whose bit patterns matter (negative zero, NaN, infinities, a subnormal) besides ordinary ones;
// all exactly representable in float32.
var oddFloats = []float64{math.Copysign(0, -1), math.Float64frombits(0x7FF8000000000000), math.Inf(1), math.Inf(-1), 0.5, -0.25, 0, math.Ldexp(1, -140), 3}

// floatsFor mixes stamps with odd floats.
func (w *World) floatsFor(rng *rand.Rand, n int) []float64 {
	out := make([]float64, n)
	for i := range out {
		if rng.Intn(3) == 0 {
			out[i] = oddFloats[rng.Intn(len(oddFloats))]
		} else {
			out[i] = float64(w.NextStamp())
		}
	}
	return out
}

func (v *buf[T]) WriteF64(vals []float64) int {
	begin()
	n := signal.Write(vals, v.b)
	end()
	return n
}

var specialFloats = []float64{0.5, -0.25, 1.5, -3, 1 << 40, -(1 << 60), math.Inf(1), math.Inf(-1),
	math.Float64frombits(0x7FF8000000000000), math.Ldexp(1, 100), -math.Ldexp(1, -100), 0.75, 1, -1, 0}

func kindClass(t string) string {
	switch t {
	case "float32", "float64":
		return "Float"
	case "int8", "int16", "int32", "int64", "int":
		return "Signed"
	}
	return "Unsigned"
}

// spreadSource makes a source view of type sty whose samples are distinct, spread over the format
// (so that position errors and many-to-one maps cannot hide): int8 stamps requantised by the real
// library into sty. Returns the view index.
func (w *World) spreadSource(sty string, ch, frames int) int {
	if sty == "int8" {
		w.Alloc("int8", ch, frames, frames)
		v := len(w.Views) - 1
		w.Write(v, "int8", w.stamps(ch*frames))
		return v
	}
	w.Alloc("int8", ch, frames, frames)
	seed := len(w.Views) - 1
	w.Write(seed, "int8", w.stamps(ch*frames))
	w.Alloc(sty, ch, frames, frames)
	v := len(w.Views) - 1
	w.Convert("SignedAs"+kindClass(sty), seed, v)
	w.Drop(seed)
	return v - 1
}

// ---- C05 -----------------------------------------------------------------------------------------
func driveConvert(s *shardSet, rng *rand.Rand, thorough bool) ([]string, map[string]int) {
	inst := 0
	for _, f := range ConvFns {
		for _, sty := range f.Src {
			for _, dty := range f.Dst {
				inst++
				chs := []int{1 + inst%4}
				if thorough {
					chs = []int{1, 2, 3, 4}
				}
				for _, ch := range chs {
					// source shorter than / equal to / longer than the destination; windows
					for _, rel := range [][2]int{{1, 3}, {2, 2}, {3, 1}, {0, 2}, {2, 0}} {
						for _, window := range []bool{false, true} {
							if !thorough && window && inst%3 != 0 {
								continue
							}
							w := s.Next()
							w.Reset()
							src := w.spreadSource(sty, ch, rel[0]+1)
							if n := w.Views[src].Len(); n > 0 && rng.Intn(2) == 0 {
								w.SetSample(src, rng.Intn(n), 0) // a zero sample: a skipped write must show
							}
							if kindClass(sty) == "Float" && f.Name == "FloatAsFloat" {
								n := w.Views[src].Len()
								vals := make([]float64, n)
								for i := range vals {
									vals[i] = specialFloats[rng.Intn(len(specialFloats))]
								}
								w.WriteFloats(src, vals)
							}
							if window {
								w.Slice(src, 1, 1+rel[0])
							} else {
								w.Slice(src, 0, rel[0])
							}
							sv := len(w.Views) - 1
							droot := w.filledRoot(dty, ch, rel[1]+2)
							if window {
								w.Slice(droot, 1, 1+rel[1])
							} else {
								w.Slice(droot, 0, rel[1])
							}
							dv := len(w.Views) - 1
							w.Convert(f.Name, sv, dv)
							// partly filled last frames
							if ch > 1 {
								w.AppendSample(sv, w.NextStamp())
								w.AppendSample(dv, w.NextStamp())
								w.Convert(f.Name, sv, dv)
							}
							// in-place on the same view when the types allow it
							if sty == dty {
								w.Convert(f.Name, sv, sv)
							}
						}
					}
				}
			}
		}
	}
	driveBigConvert(s, rng, thorough)
	driveConvertBig(s, rng, thorough)
	driveConvertSameArray(s, rng, thorough)
	driveZeroSigns(s)
	driveConvertReusedDst(s, rng, thorough)
	// the same kind of work from several goroutines at once, on buffers that share nothing: a conversion may not
	// depend on what other goroutines convert (scratch buffers, tables, pools shared between calls)
	var wg sync.WaitGroup
	concurrentRecording = true
	for g := range s.ws {
		wg.Add(1)
		go func(g int) {
			defer wg.Done()
			sub := &shardSet{ws: []*World{s.ws[g]}, files: []string{s.files[g]}}
			r := rand.New(rand.NewSource(int64(g)*31 + 5))
			driveWideningSeries(sub, r)
			for _, f := range ConvFns {
				w := sub.Next()
				w.Reset()
				sty := f.Src[r.Intn(len(f.Src))]
				src := w.spreadSource(sty, 2, 4000+r.Intn(3000)) // long calls, so that the goroutines really overlap
				for k := 0; k < 6; k++ {
					w.Alloc(f.Dst[r.Intn(len(f.Dst))], 2, w.Views[src].Length(), w.Views[src].Length())
					w.Convert(f.Name, src, len(w.Views)-1)
					w.Drop(len(w.Views) - 1)
				}
			}
		}(g)
	}
	wg.Wait()
	concurrentRecording = false
	return BuiltinTypes, map[string]int{"instantiations": inst}
}

// ---- C15 -----------------------------------------------------------------------------------------
func drivePanics(s *shardSet, rng *rand.Rand, thorough bool) ([]string, map[string]int) {
	n := 0
	pairs := [][2]int{}
	for a := 1; a <= 4; a++ {
		for b := 1; b <= 4; b++ {
			pairs = append(pairs, [2]int{a, b})
		}
	}
	for _, f := range ConvFns {
		for si, sty := range f.Src {
			for di, dty := range f.Dst {
				if !thorough && (si+di)%3 != 0 {
					continue
				}
				w := s.Next()
				w.Reset()
				for _, p := range pairs {
					if !thorough && p[0] != p[1] && rng.Intn(2) == 0 {
						continue
					}
					src := w.spreadSource(sty, p[0], 2)
					dst := w.filledRoot(dty, p[1], 2)
					w.Convert(f.Name, src, dst)
					n++
					w.Drop(dst)
					w.Drop(src)
				}
			}
		}
	}
	// different channel counts whose TOTAL sample counts agree (2ch x 6 into 3ch x 4, 4ch x 1 into 1ch x 4, ...)
	for fi, f := range ConvFns {
		w := s.Next()
		w.Reset()
		sty, dty := f.Src[fi%len(f.Src)], f.Dst[(fi*2)%len(f.Dst)]
		for _, sh := range [][4]int{{2, 6, 3, 4}, {3, 4, 2, 6}, {4, 1, 1, 4}, {1, 4, 4, 1}, {2, 2, 4, 1}, {1, 6, 3, 2}} {
			src := w.spreadSource(sty, sh[0], sh[1])
			dst := w.filledRoot(dty, sh[2], sh[3])
			w.Convert(f.Name, src, dst)
			n++
			w.Drop(dst)
			w.Drop(src)
		}
	}
	for _, ty := range []string{"int16", "float32", "uint64"} {
		w := s.Next()
		w.Reset()
		for _, sh := range [][4]int{{2, 6, 3, 4}, {4, 1, 1, 4}, {1, 6, 3, 2}} {
			d := w.filledRoot(ty, sh[0], sh[1]+sh[3]*sh[2]/sh[0]+1)
			w.Slice(d, 0, sh[1])
			dw := len(w.Views) - 1
			src := w.filledRoot(ty, sh[2], sh[3])
			w.Append(dw, src)
			n++
			w.Drop(src)
			w.Drop(dw)
			w.Drop(d)
		}
	}
	for _, ty := range typesFor(thorough) {
		w := s.Next()
		w.Reset()
		for _, p := range pairs {
			d := w.filledRoot(ty, p[0], 3)
			w.Slice(d, 0, 1) // spare capacity: a wrong append would be visible in the root
			dw := len(w.Views) - 1
			src := w.filledRoot(ty, p[1], 2)
			w.Append(dw, src)
			w.Append(d, src)
			n += 2
			w.Drop(src)
			w.Drop(dw)
			w.Drop(d)
		}
		// striped I/O with 0..5 slices on 1..4 channels
		for ch := 1; ch <= 4; ch++ {
			b := w.filledRoot(ty, ch, 3)
			for k := 0; k <= 5; k++ {
				ins := make([][]int64, k)
				nils := make([]bool, k)
				lens := make([]int, k)
				for c := range ins {
					ins[c] = w.stamps(1 + rng.Intn(3))
					lens[c] = 1 + rng.Intn(3)
				}
				st := BuiltinTypes[rng.Intn(len(BuiltinTypes))]
				w.WriteStriped(b, st, ins, nils)
				w.ReadStriped(b, st, lens, nils)
				n += 2
			}
			w.Drop(b)
		}
	}
	return typesFor(thorough), map[string]int{"guarded_calls": n}
}

// ---- C20 -----------------------------------------------------------------------------------------
// ChannelLength is a pure function; it is recorded as an event without views.
func (w *World) ChannelLength(n, ch int) {
	cnt := -1
	res := run(func() { cnt = signal.ChannelLength(n, ch) })
	w.emit(&Event{Op: "ChannelLength", Args: []int{n, ch}, Res: res, Cnt: cnt, Allocs: -1})
}

func driveZero(s *shardSet, rng *rand.Rand, thorough bool) ([]string, map[string]int) {
	types := typesFor(thorough)
	// (the last three: zero capacity with a positive length - with channels the request is inconsistent and Alloc must
	// refuse it; it must never produce a buffer that holds samples)
	shapes := [][3]int{{0, 0, 0}, {0, 2, 3}, {0, 0, 3}, {2, 0, 0}, {3, 0, 4}, {1, 0, 0}, {2, 0, 2}, {0, 2, 0}, {1, 1, 0}, {2, 3, 0}}
	for _, ty := range types {
		for _, sh := range shapes {
			w := s.Next()
			w.Reset()
			if w.Alloc(ty, sh[0], sh[1], sh[2]) != "ok" {
				continue
			}
			z := 0
			kt := KindOf(ty)
			exercise := func(z int) {
				if w.Views[z].Cap() == 0 {
					w.AppendSample(z, w.NextStamp())
					w.AppendSample(z, w.NextStamp())
				}
				for _, n := range []int{0, 1, 5} {
					w.Write(z, kt, w.stamps(n))
					w.Read(z, kt, n)
					w.Write(z, BuiltinTypes[rng.Intn(13)], w.stamps(n))
				}
				ch := w.Views[z].Channels()
				ins := make([][]int64, ch)
				nils := make([]bool, ch)
				lens := make([]int, ch)
				for c := range ins {
					ins[c] = w.stamps(2)
					lens[c] = 2
				}
				w.WriteStriped(z, kt, ins, nils)
				w.ReadStriped(z, kt, lens, nils)
				w.Slice(z, 0, 0)
				w.Append(z, len(w.Views)-1) // appending an empty buffer
				w.Append(z, z)
				if w.Views[z].Cap() == 0 { // an empty source that HAS capacity must leave an inert destination inert
					w.Alloc(ty, w.Views[z].Channels(), 0, 3)
					w.Append(z, len(w.Views)-1)
					w.AppendSample(z, w.NextStamp())
					w.Write(z, kt, w.stamps(2))
					if w.Views[len(w.Views)-1].Cap() > 0 {
						w.Slice(len(w.Views)-1, 1, 1) // zero-length view in the middle of spare capacity
						w.Append(z, len(w.Views)-1)
						w.AppendSample(z, w.NextStamp())
					}
				}
				// conversions from and to the inert view, same type family partner
				w.Alloc(kt, ch, 2, 2)
				p := len(w.Views) - 1
				w.Write(p, kt, w.stamps(2*ch))
				for _, f := range ConvFns {
					if ty == kt && contains(f.Src, kt) && contains(f.Dst, kt) {
						w.Convert(f.Name, z, p)
						w.Convert(f.Name, p, z)
						w.Convert(f.Name, z, z)
					}
				}
				if ty == kt { // every conversion family from and into the inert view, with every partner element type
					for _, f := range ConvFns {
						if contains(f.Src, kt) {
							for _, dt := range f.Dst {
								w.Alloc(dt, ch, 0, 0)
								e := len(w.Views) - 1
								w.Convert(f.Name, z, e) // empty into empty
								w.Alloc(dt, ch, 1, 1)
								w.Convert(f.Name, z, e+1) // empty into non-empty
								w.Drop(e + 1)
								w.Drop(e)
							}
						}
						if contains(f.Dst, kt) {
							for _, st := range f.Src {
								w.Alloc(st, ch, 1, 1)
								w.Convert(f.Name, len(w.Views)-1, z) // non-empty into empty
								w.Drop(len(w.Views) - 1)
							}
						}
					}
				}
				if ch > 0 {
					w.ChanShape(z, 0)
				}
			}
			exercise(z)
			if w.Views[0].Cap() > 0 { // zero-length window of a non-empty buffer ("any zero-length buffer")
				w.Slice(0, 1, 1)
				exercise(len(w.Views) - 1)
			}
			for _, n := range []int{0, 1, 7} {
				w.ChannelLength(n, 0)
				w.ChannelLength(n, sh[0])
			}
		}
	}
	return types, nil
}

func init() {
	profileFns["convert"] = driveConvert
	profileFns["panics"] = drivePanics
	profileFns["zero"] = driveZero
}

// driveExtremes: every way of storing a sample (bulk and striped writes from a slice of the SAME element type,
// sample appends, indexed stores, stores through a channel view, buffer appends) with the values at the ends of
// the element type's range and values that do not survive a detour through a narrower or floating-point
// representation; everything is read back through all views (same-type reads, channel reads, the projection).
func driveExtremes(s *shardSet, rng *rand.Rand, thorough bool) {
	for _, ty := range typesFor(thorough) {
		ext := extremesFor(ty)
		kt := KindOf(ty)
		for ch := 1; ch <= 3; ch++ {
			w := s.Next()
			w.Reset()
			frames := (len(ext)+ch-1)/ch + 2
			w.Alloc(ty, ch, frames-1, frames)
			root := 0
			w.Slice(root, 0, frames) // whole-capacity alias
			n := w.Views[root].Len()
			vals := make([]int64, n)
			for i := range vals {
				vals[i] = ext[(i+ch)%len(ext)]
			}
			w.Write(root, kt, vals)
			w.Read(root, kt, n+1)
			// striped, rows of unequal length
			rows := make([][]int64, ch)
			nils := make([]bool, ch)
			lens := make([]int, ch)
			for c := range rows {
				rows[c] = make([]int64, frames-1-c%2)
				for i := range rows[c] {
					rows[c][i] = ext[(i*ch+c+1)%len(ext)]
				}
				lens[c] = frames
			}
			w.WriteStriped(root, kt, rows, nils)
			w.ReadStriped(root, kt, lens, nils)
			// single stores
			for i := 0; i < n; i++ {
				w.SetSample(root, i, ext[(i+2)%len(ext)])
			}
			for i := 0; i < ch+1; i++ { // fills the last frame, then one no-op
				w.AppendSample(root, ext[i%len(ext)])
			}
			for c := 0; c < ch; c++ {
				for i := 0; i < frames; i++ {
					w.ChanSet(root, c, i, ext[(c+i)%len(ext)])
				}
				w.ChanSample(root, c, rng.Intn(frames))
			}
			w.Read(1, kt, ch*frames)
			// a buffer append copies them unchanged (in place and into new storage)
			w.Alloc(ty, ch, 0, frames+1)
			d := len(w.Views) - 1
			w.Append(d, root)
			w.Append(d, root)
			w.Read(d, kt, w.Views[d].Len())
		}
	}
}

// driveBlind: short directed histories over several small and one larger buffer of one element type during which the
// harness never looks at any contents (World.Blind); one Observe at the end compares every view. The FIRST operation
// a fresh buffer sees is, in turn, each of the operations that store samples (a buffer append that fits, one that
// grows, a sample append, an indexed store, a bulk and a striped write, a store through a channel view, being the
// destination of a conversion), while other fresh buffers of the same type exist and more are allocated afterwards.
func driveBlind(s *shardSet, rng *rand.Rand, thorough bool) {
	first := []string{"AppendFits", "AppendGrows", "AppendSample", "SetSample", "Write", "WriteStriped", "ChanSet", "Convert", "Slice"}
	for ti, ty := range typesFor(thorough) {
		kt := KindOf(ty)
		for fi, f := range first {
			if !thorough && (ti+fi)%3 != 0 {
				continue
			}
			ch := 1 + (ti+fi)%3
			w := s.Next()
			w.Reset()
			w.NoObs, w.Blind = true, true
			k := 2 + rng.Intn(4)
			w.Alloc(ty, ch, 1, k) // 0: the buffer under test (one frame long, k frames of capacity)
			w.Alloc(ty, ch, 2, k) // 1: an untouched neighbour
			w.Alloc(ty, ch, 1, 1) // 2: source
			w.Write(2, kt, w.stamps(ch))
			w.Alloc(ty, ch, 100, 200) // 3: a large untouched buffer
			switch f {
			case "AppendFits":
				w.Append(0, 2)
			case "AppendGrows":
				for i := 0; i < k; i++ {
					w.Append(0, 2)
				}
			case "AppendSample":
				w.AppendSample(0, w.NextStamp())
			case "SetSample":
				w.SetSample(0, 0, w.NextStamp())
			case "Write":
				w.Write(0, kt, w.stamps(ch))
			case "WriteStriped":
				rows := make([][]int64, ch)
				for c := range rows {
					rows[c] = w.stamps(1)
				}
				w.WriteStriped(0, kt, rows, make([]bool, ch))
			case "ChanSet":
				w.ChanSet(0, ch-1, 0, w.NextStamp())
			case "Convert":
				if fn := convFor(rng, kt, kt); fn != "" && ty == kt {
					w.Convert(fn, 2, 0)
				} else {
					w.SetSample(0, 0, w.NextStamp())
				}
			case "Slice":
				w.Slice(0, 0, k)
				w.SetSample(len(w.Views)-1, ch*k-1, w.NextStamp())
			}
			// two views of the same window taken back to back are two headers: appending through one leaves the other
			w.Slice(1, 0, 1)
			w.Slice(1, 0, 1)
			w.AppendSample(len(w.Views)-1, w.NextStamp())
			// a zero-capacity buffer that grows by a buffer append is one buffer: the next one is empty again
			w.Alloc(ty, ch, 0, 0)
			z := len(w.Views) - 1
			w.Append(z, 2)
			w.Alloc(ty, ch, 0, 0)
			w.AppendSample(len(w.Views)-1, w.NextStamp())
			w.Alloc(ty, ch, 2, 2)   // allocated after the store: must be zero
			w.Alloc(ty, 1, 3, 64)   // and one whose total capacity is exactly 64 samples
			w.Append(1, 2)          // the neighbour's first operation
			w.Alloc(ty, ch, 1, k+1) // another fresh one
			w.NoObs, w.Blind = false, false
			w.Observe()
		}
	}
}

// driveRaggedAppend: buffer appends for every small combination of channel count, destination length in SAMPLES
// (so the last frame may be partly filled), spare capacity and source length in samples - the amount by which a
// growing append must extend the storage depends on all of them, and Go's allocator often hides a wrong amount by
// rounding capacities up, differently for every element size.
func driveRaggedAppend(s *shardSet, rng *rand.Rand, thorough bool) {
	types := []string{"int8", "int64", "int32", "float32", "uint16"} // (quick: the narrowest and the widest in full, the others sampled)
	maxCh := 5
	if thorough {
		types = BuiltinTypes
		maxCh = 8
	}
	for _, ty := range types {
		kt := KindOf(ty)
		for ch := 2; ch <= maxCh; ch++ {
			for dlen := 0; dlen <= 2*ch+1; dlen++ {
				for spare := 0; spare <= 1; spare++ {
					for slen := 1; slen <= 2*ch+2; slen++ {
						if !thorough && ty != "int8" && ty != "int64" && rng.Intn(4) != 0 {
							continue
						}
						w := s.Next()
						w.Reset()
						capFrames := (dlen+ch-1)/ch + spare
						w.Alloc(ty, ch, dlen/ch, capFrames)
						w.Write(0, kt, w.stamps(ch*(dlen/ch)))
						for i := 0; i < dlen%ch && w.Views[0].Len() < w.Views[0].Cap(); i++ {
							w.AppendSample(0, w.NextStamp())
						}
						w.Alloc(ty, ch, slen/ch, (slen+ch-1)/ch)
						w.Write(1, kt, w.stamps(ch*(slen/ch)))
						for i := 0; i < slen%ch; i++ {
							w.AppendSample(1, w.NextStamp())
						}
						w.Append(0, 1)
						w.AppendSample(0, w.NextStamp())
						w.Slice(0, 0, w.Views[0].Capacity())
						w.AppendSample(0, w.NextStamp())
					}
				}
			}
		}
	}
}

// driveConvertSameArray: source and destination are DISJOINT windows of one allocation (same element type, so only
// the three same-family functions apply), destination before and after the source, adjacent and with a gap.
func driveConvertSameArray(s *shardSet, rng *rand.Rand, thorough bool) {
	for _, fn := range []string{"FloatAsFloat", "SignedAsSigned", "UnsignedAsUnsigned"} {
		for _, f := range ConvFns {
			if f.Name != fn {
				continue
			}
			for ti, ty := range f.Src {
				if !contains(f.Dst, ty) || (!thorough && ti%2 == 1) {
					continue
				}
				for ch := 1; ch <= 2; ch++ {
					for _, sh := range [][4]int{{0, 4, 4, 8}, {4, 8, 0, 4}, {0, 3, 5, 8}, {5, 8, 1, 3}, {0, 2, 2, 8}, {6, 8, 0, 6}} {
						w := s.Next()
						w.Reset()
						root := w.spreadSource(ty, ch, 8)
						w.Slice(root, sh[0], sh[1])
						sv := len(w.Views) - 1
						w.Slice(root, sh[2], sh[3])
						w.Convert(fn, sv, len(w.Views)-1)
					}
				}
			}
		}
	}
}

// driveConvertReusedDst: ONE destination buffer receives, one after the other, conversions from sources of every
// admissible type that all hold the same few values (the first sample of each source equals the last sample of the
// one before): a result depends on the source sample and the two formats, never on what the destination was used for.
func driveConvertReusedDst(s *shardSet, rng *rand.Rand, thorough bool) {
	vals := []int64{127, 127, 1, 0, 100, 127}
	for _, dty := range BuiltinTypes {
		if !thorough && rng.Intn(2) == 0 {
			continue
		}
		w := s.Next()
		w.Reset()
		w.Alloc(dty, 1, len(vals), len(vals))
		for round := 0; round < 2; round++ {
			for _, f := range ConvFns {
				if !contains(f.Dst, dty) {
					continue
				}
				for _, sty := range f.Src {
					if isFloatTy(sty) {
						continue
					}
					w.Alloc(sty, 1, len(vals), len(vals))
					sv := len(w.Views) - 1
					in := make([]int64, len(vals))
					for i, v := range vals {
						if round == 1 { // the same NUMBER in every format (its code means something else at every depth)
							in[i] = v
							continue
						}
						// the same amplitude in every integer format: v scaled to the format's depth
						in[i] = v << uint(kindBits(sty)-8)
						if kindClass(KindOf(sty)) == "Unsigned" {
							in[i] = (v + 128) << uint(kindBits(sty)-8)
						}
					}
					w.Write(sv, KindOf(sty), in)
					w.Convert(f.Name, sv, 0)
					w.Drop(sv)
				}
			}
		}
	}
}

// driveHugeSlice: tail windows of buffers of 1 MiB and more (a window that "pins" a large parent might be given a
// copy). Nothing is projected (the views are too large to log after every call): the history is blind and judged by
// the samples read back through the other side.
func driveHugeSlice(s *shardSet, rng *rand.Rand, thorough bool) {
	for _, sh := range []struct {
		ty string
		k  int
	}{{"int8", 1<<20 + 16}, {"int64", 1<<17 + 16}, {"float32", 1<<18 + 5}} {
		w := s.Next()
		w.Reset()
		w.NoObs, w.Blind = true, true
		k := sh.k
		w.Alloc(sh.ty, 1, k, k)
		w.Slice(0, k-50, k) // 1: the last 50 frames
		w.SetSample(1, 7, w.NextStamp())
		w.Sample(0, k-50+7)
		w.SetSample(0, k-1, w.NextStamp())
		w.Sample(1, 49)
		w.Slice(1, 10, 20) // 2: a window of the window
		w.SetSample(2, 0, w.NextStamp())
		w.Sample(0, k-40)
		w.Sample(1, 10)
		w.Slice(0, k-3, k) // 3: a three-frame tail taken from the root directly
		w.SetSample(0, k-2, w.NextStamp())
		w.Sample(3, 1)
		w.Sample(1, 48)
		w.Slice(0, 10, 12) // 4: a short window near the start: its spare capacity is the rest of the parent
		w.AppendSample(4, w.NextStamp())
		w.Sample(0, 12)
		w.AppendSample(4, w.NextStamp())
		w.Sample(0, 13)
		w.NoObs, w.Blind = false, false
	}
}

// driveZeroSigns: FloatAsFloat must transfer the SIGN of a zero: -0 into a fresh (+0) destination, +0 over a
// destination holding -0, for all four float pairs (a store skipped because old and new compare equal would show).
func driveZeroSigns(s *shardSet) {
	nz := math.Copysign(0, -1)
	for _, sty := range []string{"float32", "float64"} {
		for _, dty := range []string{"float32", "float64"} {
			w := s.Next()
			w.Reset()
			w.Alloc(sty, 1, 4, 4)
			w.WriteFloats(0, []float64{nz, 0, nz, 1})
			w.Alloc(dty, 1, 4, 4) // fresh: +0 everywhere
			w.Convert("FloatAsFloat", 0, 1)
			w.WriteFloats(1, []float64{nz, nz, nz, nz})
			w.WriteFloats(0, []float64{0, 0, nz, 0})
			w.Convert("FloatAsFloat", 0, 1)
		}
	}
}

// driveConcurrentAppend: growing and in-place buffer appends from several goroutines at once, each on buffers of its
// own (nothing is shared) but all of ONE element type per round: an append may not depend on what other goroutines
// append (staging areas, size caches, pools keyed by element type).
func driveConcurrentAppend(s *shardSet, rng *rand.Rand, thorough bool) {
	rounds := []string{"int16", "float32", "uint8"}
	if thorough {
		rounds = BuiltinTypes
	}
	for ri, ty := range rounds {
		kt := KindOf(ty)
		var wg sync.WaitGroup
		concurrentRecording = true
		for g := range s.ws {
			wg.Add(1)
			go func(g int) {
				defer wg.Done()
				w := s.ws[g]
				r := rand.New(rand.NewSource(int64(g)*131 + int64(ri)))
				for t := 0; t < 6; t++ {
					w.Reset()
					ch := 1 + r.Intn(3)
					w.Alloc(ty, ch, 0, 1+r.Intn(3))
					for k := 0; k < 12; k++ {
						n := 1 + r.Intn(40)
						w.Alloc(ty, ch, n, n)
						src := len(w.Views) - 1
						w.Write(src, kt, w.stamps(ch*n))
						w.Append(0, src)
						w.Drop(src)
					}
				}
			}(g)
		}
		wg.Wait()
		concurrentRecording = false
	}
}
